#!/usr/bin/env python3
"""Regenerate /verif/MANIFEST.json from the table below (keeps it valid)."""
import json
import os

HERE = os.path.dirname(os.path.dirname(os.path.abspath(__file__)))

# id -> (technique, level text, level note, design ref)
CLAIMED = {}
NOT_YET = {}


def claim(pid, technique, text, note, ref):
    CLAIMED[pid] = (technique, text, note, ref)


exec(open(os.path.join(HERE, "tools", "manifest_table.py")).read())

checks = []
for pid in sorted(CLAIMED):
    technique, text, note, ref = CLAIMED[pid]
    checks.append({
        "property_id": pid,
        "quick_cmd": "./check %s --tier quick" % pid,
        "thorough_cmd": "./check %s --tier thorough" % pid,
        "evidence_file": "evidence/%s.json" % pid,
        "replay_cmd_template": "./check %s --replay {path}" % pid,
        "engine": "vpm",
        "level_claimed": {"category": "exploration", "text": text,
                          "design_ref": ref},
        "level_note": note,
        "technique": technique,
    })
ALL = ["C%02d" % i for i in range(1, 21)]
na = [{"property_id": p, "reason": NOT_YET.get(p, "check not built yet")}
      for p in ALL if p not in CLAIMED]
man = {
    "version": 1,
    "setup_cmd": "/venv/bin/pip install --quiet --no-index --find-links "
                 "/opt/veriftools/wheels --target /verif/.deps icontract "
                 "&& /venv/bin/python -c \"import sys; sys.path.insert(0, "
                 "'/verif/.deps'); import icontract\"",
    "hooks": {
        "guard": "PYMEEUS_VERIF",
        "enable": "no in-repo hooks: all monitors attach from /verif at run "
                  "time (contracts, wrappers, sys.monitoring); the guard "
                  "variable is unused by the repository",
        "baseline_off_cmd": "cd /repo && /venv/bin/python -m pytest -ra -q "
                            "-p no:cacheprovider --timeout=900 "
                            "--continue-on-collection-errors",
        "source_commits": [],
        "add_only": True,
    },
    "engines": [{
        "name": "vpm", "path": "vpm/",
        "serves_properties": sorted(CLAIMED),
        "kind_free_text": "runtime monitoring: real pymeeus functions run "
        "under generated boundary-seeking workloads in sharded worker "
        "processes; oracles = independent reference models, contracts "
        "(icontract invariants), offline checkers over recorded result "
        "histories, purity snapshots; sys.monitoring line reach for "
        "evidence and the inconclusive verdict",
    }],
    "checks": checks,
    "notes": "Verdicts are three-valued: exit 0 held, exit 1 VIOLATION, exit "
             "2 INCONCLUSIVE (monitor not reached / shard died). Known "
             "findings: known_findings.txt. Design: DESIGN.md.",
    "not_applicable": na,
}
with open(os.path.join(HERE, "MANIFEST.json"), "w") as f:
    json.dump(man, f, indent=1)
print("MANIFEST.json: %d checks, %d not claimed" % (len(checks), len(na)))
