#!/usr/bin/env python3
"""Print the measured-cost table of DESIGN.md section 6.

quick column: from evidence/Cxx.json (what the last quick run wrote);
thorough column: from the log of a `tools/run_all.sh thorough` run given as
the first argument (lines "Cxx tier=thorough ... executions=.. wall=..s").
"""
import json
import os
import re
import sys

HERE = os.path.dirname(os.path.dirname(os.path.abspath(__file__)))


def human(n):
    n = int(n)
    if n >= 10 ** 6:
        return "%.1f M" % (n / 1e6)
    if n >= 10 ** 3:
        return "%.0f k" % (n / 1e3)
    return str(n)


def main():
    thorough = {}
    if len(sys.argv) > 1:
        pat = re.compile(r"^(C\d\d) tier=thorough .*executions=(\d+) oracle_checks=(\d+) .*wall=([\d.]+)s")
        for line in open(sys.argv[1]):
            m = pat.match(line)
            if m:
                thorough[m.group(1)] = (int(m.group(2)), int(m.group(3)), float(m.group(4)))
    print("| property | quick: executions / oracle checks / wall | thorough: executions / oracle checks / wall |")
    print("|---|---|---|")
    tq = tt = 0.0
    for i in range(1, 21):
        pid = "C%02d" % i
        ev = json.load(open(os.path.join(HERE, "evidence", pid + ".json")))
        cov = ev["coverage"]
        checks = sum(c.get("checked", 0) for c in cov.get("clauses", {}).values())
        q = "%s / %s / %.0f s" % (human(cov.get("evaluations", 0)), human(checks), ev.get("wall_s", 0))
        tq += ev.get("wall_s", 0)
        if pid in thorough:
            e, o, w = thorough[pid]
            tt += w
            t = "%s / %s / %s" % (human(e), human(o), ("%.0f s" % w) if w < 100 else ("%.1f min" % (w / 60)))
        else:
            t = "-"
        print("| %s | %s | %s |" % (pid, q, t))
    print()
    print("sum of quick walls: %.1f min; sum of thorough walls: %.1f min" % (tq / 60, tt / 60))


if __name__ == "__main__":
    main()
