#!/bin/sh
# run every registered check (quick by default) and validate the evidence files
cd "$(dirname "$0")/.." || exit 2
tier=${1:-quick}
rc=0
for i in 01 02 03 04 05 06 07 08 09 10 11 12 13 14 15 16 17 18 19 20; do
  out=$(./check C$i --tier $tier 2>&1); r=$?
  echo "$out" | grep -v "^KNOWN-FINDING" | tail -1
  if [ $r -ne 0 ]; then rc=1; echo "$out" | grep -E "VIOLATION|INCONCLUSIVE|clause=" | head -5; fi
done
python3-vt - <<'PY'
import json, jsonschema, glob
s=json.load(open('/root/.vp/EVIDENCE.schema.json'))
for f in sorted(glob.glob('evidence/*.json')):
    jsonschema.validate(json.load(open(f)), s)
print('evidence files valid:', len(glob.glob('evidence/*.json')))
PY
exit $rc
