#!/usr/bin/env python3
"""Regression run of the monitors against every kept seeded change:
for each /verif/seeded/<name>/patch.diff, apply it in a scratch worktree of
/repo HEAD under /tmp, run the quick tier of the property's check against it
(VERIF_REPO=<scratch>), expect a VIOLATION line, remove the worktree.

usage: tools/run_seeds.py [--only C03-b,C04-b] [--jobs 2]
Writes seeded/results.json.  Exit 0 iff every seed is caught."""
import argparse
import json
import os
import subprocess
import sys
import time
from concurrent.futures import ThreadPoolExecutor

VERIF = os.path.dirname(os.path.dirname(os.path.abspath(__file__)))


def sh(cmd, **kw):
    return subprocess.run(cmd, capture_output=True, text=True, **kw)


def one(name):
    d = os.path.join(VERIF, "seeded", name)
    meta = json.load(open(os.path.join(d, "meta.json")))
    prop = meta["property"]
    scratch = "/tmp/seedrun-%s-%d" % (name, os.getpid())
    out = {"name": name, "property": prop}
    r = sh(["git", "-C", "/repo", "worktree", "add", "--detach", scratch,
            "HEAD"])
    if r.returncode:
        out["error"] = r.stderr[-300:]
        return out
    try:
        r = sh(["git", "-C", scratch, "apply", os.path.join(d, "patch.diff")])
        if r.returncode:
            out["error"] = "patch does not apply: " + r.stderr[-300:]
            return out
        t0 = time.time()
        # a seed recorded as caught by the thorough tier only is run there
        ck = meta.get("checks", {})
        tier = "quick"
        if not any(v.get("violation") for k, v in ck.items()
                   if "/quick/" in k) and any(
                v.get("violation") for k, v in ck.items()
                if k.startswith(prop + "/thorough/")):
            tier = "thorough"
        out["tier"] = tier
        p = sh([os.path.join(VERIF, "check"), prop, "--tier", tier,
                "--noevidence"],
               cwd=VERIF, env=dict(os.environ, VERIF_REPO=scratch,
                                   VERIF_SEED=os.environ.get("VERIF_SEED",
                                                             "0")))
        out["caught"] = ("VIOLATION property=%s" % prop) in p.stdout
        out["exit"] = p.returncode
        out["clauses"] = sorted(set(
            l.split("clause=")[1].split(" ")[0]
            for l in p.stdout.splitlines() if "clause=" in l))[:8]
        out["wall_s"] = round(time.time() - t0, 1)
        if not out["caught"]:
            # a break that arrives through a dependency may be outside what
            # the property's own check can see: try the checks that were
            # recorded as catching it when the seed was confirmed
            others = sorted(set(k.split("/")[0] for k, v in
                                meta.get("checks", {}).items()
                                if v.get("violation")) - {prop})
            for c in others:
                p = sh([os.path.join(VERIF, "check"), c, "--noevidence"],
                       cwd=VERIF, env=dict(os.environ, VERIF_REPO=scratch,
                                           VERIF_SEED="0"))
                if ("VIOLATION property=%s" % c) in p.stdout:
                    out["caught"] = True
                    out["caught_by_other_check"] = c
                    out["clauses"] = sorted(set(
                        l.split("clause=")[1].split(" ")[0]
                        for l in p.stdout.splitlines()
                        if "clause=" in l))[:8]
                    break
    finally:
        sh(["git", "-C", "/repo", "worktree", "remove", "--force", scratch])
    return out


def main():
    ap = argparse.ArgumentParser()
    ap.add_argument("--only")
    ap.add_argument("--jobs", type=int, default=2)
    a = ap.parse_args()
    names = sorted(n for n in os.listdir(os.path.join(VERIF, "seeded"))
                   if os.path.exists(os.path.join(VERIF, "seeded", n,
                                                  "patch.diff")))
    if a.only:
        names = [n for n in names if n in a.only.split(",")]
    with ThreadPoolExecutor(a.jobs) as ex:
        res = list(ex.map(one, names))
    for r in res:
        print(r["name"], "caught" if r.get("caught") else "MISSED",
              ("by " + r["caught_by_other_check"])
              if r.get("caught_by_other_check") else "",
              r.get("clauses"), r.get("error", ""))
    head = sh(["git", "-C", "/repo", "rev-parse", "HEAD"]).stdout.strip()
    if not a.only:
        with open(os.path.join(VERIF, "seeded", "results.json"), "w") as f:
            json.dump({"repo_head": head, "results": res}, f, indent=1)
    missed = [r["name"] for r in res if not r.get("caught")]
    print("seeds: %d, caught: %d, missed: %s"
          % (len(res), len(res) - len(missed), missed))
    return 1 if missed else 0


if __name__ == "__main__":
    sys.exit(main())
