claim("C01", "runtime monitoring: exhaustive enumeration of civil days against an independent day-counter reference model",
      "Every civil day -4712..6000 (thorough; a third of the years in quick) is pushed through the real Epoch constructor and get_date/mjd and compared, with exact float equality, to a day counter that shares no formula with the library; refusal probes around every month end. Held means: held on every day enumerated.",
      "trusts the day-counter oracle (self-checked against 3 JD anchors and datetime after 1582) and CPython float arithmetic",
      "DESIGN.md section 3 C01")
