claim("C01", "runtime monitoring: exhaustive enumeration of civil days against an independent day-counter reference model",
      "Every civil day -4712..6000 (thorough; a third of the years in quick) is pushed through the real Epoch constructor and get_date/mjd and compared, with exact float equality, to a day counter that shares no formula with the library; refusal probes around every month end. Held means: held on every day enumerated.",
      "trusts the day-counter oracle (self-checked against 3 JD anchors and datetime after 1582) and CPython float arithmetic",
      "DESIGN.md section 3 C01")
claim("C16", "runtime monitoring: exhaustive civil-day walk against a day-counter reference model + seeded JDE sampling against the IAU 1982 sidereal-time model",
      "Weekday, day of year (both directions), fractional year and leap flag are observed on every civil day -4712..6000 (thorough) at three instants of the day and compared with an independent day counter; monotonicity of year() is checked along the recorded day sequence. Sidereal time is observed on 1.6e5 (quick) / 3e6 (thorough) JDE including civil-midnight neighbours against the IAU 1982 expression and the library's own nutation.",
      "trusts the day-counter oracle and the IAU 1982 GMST expression; in 1582 after the reform both day-of-year numberings the property allows are accepted",
      "DESIGN.md section 3 C16")
claim("C19", "runtime monitoring: exhaustive enumeration of the four finite calendars against independent reference models (epact Computus, molad/dehiyyot Hebrew calendar, tabular Islamic calendar)",
      "Every Easter -4712..10000 and every Pesach 1..3000 in both tiers; every Moslem date 1..2500 AH and every civil date 622-07-16..3000-12-31 in the thorough tier (a fifth of the years plus all year edges in quick) are converted by the real functions and compared with reference calendars that share no formula with Meeus' recipes; weekday, ranges, month/year lengths, consecutive-day and round-trip clauses are observed on the results.",
      "trusts the three reference calendars (self-checked on literature dates at start-up) and the day counter",
      "DESIGN.md section 3 C19")
claim("C10", "runtime monitoring: complete enumeration of the (year, month, day, time, override) grid against the IERS leap-second list as reference model",
      "Every grid point the property quantifies over (1950..2100 x 12 x {1,15,last} x {0h,12h,23:59:59}, table lookup and overrides k=0..60 in thorough / 6 values in quick) is built with the real constructor with and without utc=True, read back with get_full_date(utc=True), and compared with the IERS insertion list; the leap-second step function and Delta-T band/joints are observed for every month.",
      "trusts the IERS list in vpm/oracles/iers.py and the day counter; offsets compared at 1e-4 s (JDE resolution is 4e-5 s)",
      "DESIGN.md section 3 C10")
claim("C02", "runtime monitoring: seeded boundary-directed JDE/civil-instant workload with day-counter reference, offline monotonicity checker over the recorded (JDE, fields) log, icontract class invariant on Epoch",
      "About 2e5 (quick) / 4e6 (thorough) instants concentrated within ulps..seconds of day, month, year boundaries and the 1582 reform go through Epoch(j) -> get_full_date() -> Epoch(fields); field ranges, the day-counter instant of the fields and the round trip are checked per call and the sorted log is checked offline for a never-decreasing date tuple. 25 constructor/set/check_input_date forms of one civil instant are compared, and +, -, +=, -=, reflected add, Epoch-Epoch, six comparisons and hash are checked on generated operands.",
      "trusts the day counter; Epoch pairs closer than 1e-6 day but unequal are not compared (documented 1e-10 equality tolerance)",
      "DESIGN.md section 3 C02")
claim("C03", "runtime monitoring: icontract class invariant on Angle + exact-rational reference model for every constructor form and operator, on seeded boundary-seeking operands",
      "Every constructor form (decimal, radians, hours, 2/3/4 sexagesimal pieces as arguments/tuple/list, sign on any piece) and 21 operator forms x {Angle,int,float} operands are executed on ~3e5 (quick) / 6e6 (thorough) generated inputs concentrated on multiples of 360, ulp neighbours, denormals and overflowing pieces; results are compared with exact Fraction/Decimal arithmetic mod 360 and operand snapshots; the class invariant -360 < value < 360 is evaluated after every public Angle method (4e7 evaluations per quick run), including on Angles built inside real Coordinates/Sun/Moon calls.",
      "tolerance 1e-9*max(1,|exact|); divisors 0<|b|<1e-9 not generated; powers judged only where a real result <= 1e15 exists",
      "DESIGN.md section 3 C03")
claim("C04", "runtime monitoring: exact-rational recombination oracle and a permissive parser of the printed fields, on values generated at the rounding break points",
      "About 9e4 (quick) / 6e5 (thorough) Angle values placed at and around whole seconds/minutes/degrees/hours and at +-(0.5*10^-n) of them are decomposed (dms_tuple, ra_tuple, deg2dms, dms2deg) and printed (dms_str, ra_str, both styles, n_dec -1..12; ~1.2e6 strings per quick run); ranges, integer types, no-60, sign placement and read-back within half a printed unit are checked on every result.",
      "read-back tolerance is half a unit of the last printed decimal + 1e-9 degree; 24h/360d after a carry is accepted (congruence)",
      "DESIGN.md section 3 C04")
claim("C11", "runtime monitoring: post-condition wrapped around the real kepler_equation (rebound in every pymeeus module, so the library's own internal calls are judged) + relation oracles on generated orbits",
      "1.4e5 (quick) / 3.6e6 (thorough) Kepler cases over e in [0, 0.999999] and M in [-1e4, 1e4] deg concentrated on multiples of 180 are judged by the residual / half-revolution / true-anomaly post-condition; vis-viva, orbit-length bounds and continuity at e = 0.95, k = (1+cos i)/2 on exactly feasible (incl. degenerate) triangles, and node passages (re-propagated with the library's own Kepler solver; Barker's equation for parabolas) are checked on generated inputs.",
      "tolerances the property does not state are documented in the evidence assumptions and are error budgets of the shared formulas, on the loose side",
      "DESIGN.md section 3 C11")
