claim("C01", "runtime monitoring: exhaustive enumeration of civil days against an independent day-counter reference model",
      "Every civil day -4712..6000 (thorough; a third of the years in quick) is pushed through the real Epoch constructor and get_date/mjd and compared, with exact float equality, to a day counter that shares no formula with the library; refusal probes around every month end. Held means: held on every day enumerated.",
      "trusts the day-counter oracle (self-checked against 3 JD anchors and datetime after 1582) and CPython float arithmetic",
      "DESIGN.md section 3 C01")
claim("C16", "runtime monitoring: exhaustive civil-day walk against a day-counter reference model + seeded JDE sampling against the IAU 1982 sidereal-time model",
      "Weekday, day of year (both directions), fractional year and leap flag are observed on every civil day -4712..6000 (thorough) at three instants of the day and compared with an independent day counter; monotonicity of year() is checked along the recorded day sequence. Sidereal time is observed on 1.6e5 (quick) / 3e6 (thorough) JDE including civil-midnight neighbours against the IAU 1982 expression and the library's own nutation.",
      "trusts the day-counter oracle and the IAU 1982 GMST expression; in 1582 after the reform both day-of-year numberings the property allows are accepted",
      "DESIGN.md section 3 C16")
