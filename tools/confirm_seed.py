#!/usr/bin/env python3
"""Confirm a seeded property-breaking change and record it under
/verif/seeded/<name>/.

usage: tools/confirm_seed.py <name> <property id> <dir with patch.diff, demo.py, notes.md>
           [--checks C03,C20] [--tier quick|thorough]

Steps (all in a scratch worktree of /repo under /tmp, removed afterwards):
  1. the patch applies to a clean checkout of /repo's HEAD;
  2. the repository's own test-suite still passes with it (the one test that
     fails on the unchanged tree is deselected);
  3. demo.py FAILS on the patched tree and PASSES on the unchanged tree;
  4. the named checks are run against the patched tree (VERIF_REPO=<scratch>),
     recording which of them print a VIOLATION line and for which clauses.
"""
import argparse
import json
import os
import shutil
import subprocess
import sys
import time

VERIF = os.path.dirname(os.path.dirname(os.path.abspath(__file__)))
PY = "/venv/bin/python"


def sh(cmd, **kw):
    return subprocess.run(cmd, capture_output=True, text=True, **kw)


def main():
    ap = argparse.ArgumentParser()
    ap.add_argument("name")
    ap.add_argument("prop")
    ap.add_argument("src")
    ap.add_argument("--checks")
    ap.add_argument("--tier", default="quick")
    ap.add_argument("--seeds", default="0")
    args = ap.parse_args()
    checks = (args.checks or args.prop).split(",")
    scratch = "/tmp/confirm-%s-%d" % (args.name, os.getpid())
    meta = {"name": args.name, "property": args.prop, "confirmed_at":
            time.strftime("%Y-%m-%d %H:%M:%S")}
    head = sh(["git", "-C", "/repo", "rev-parse", "HEAD"]).stdout.strip()
    meta["repo_head"] = head
    r = sh(["git", "-C", "/repo", "worktree", "add", "--detach", scratch,
            "HEAD"])
    if r.returncode:
        print(r.stderr)
        return 2
    try:
        patch = os.path.join(args.src, "patch.diff")
        r = sh(["git", "-C", scratch, "apply", "--check", patch])
        meta["patch_applies"] = r.returncode == 0
        if r.returncode:
            print("patch does not apply:", r.stderr[-500:])
            return 1
        sh(["git", "-C", scratch, "apply", patch])
        stat = sh(["git", "-C", scratch, "diff", "--stat"]).stdout
        meta["diffstat"] = stat.strip().splitlines()[-1] if stat.strip() \
            else ""
        env = dict(os.environ, PYTHONPATH=scratch,
                   PYTHONDONTWRITEBYTECODE="1")
        where = sh([PY, "-c", "import pymeeus; print(pymeeus.__file__)"],
                   cwd=scratch, env=env).stdout.strip()
        assert where.startswith(scratch), where
        t = sh([PY, "-m", "pytest", "-q", "-p", "no:cacheprovider",
                "--deselect", "tests/test_jupiterMoons.py::TestJupiterMoons"
                "::test_is_phenomena", "tests"], cwd=scratch, env=env)
        meta["suite"] = t.stdout.strip().splitlines()[-1] if t.stdout else ""
        meta["suite_passes"] = t.returncode == 0
        demo = os.path.join(args.src, "demo.py")
        d1 = sh([PY, demo, scratch], cwd="/tmp", env=dict(
            os.environ, PYTHONDONTWRITEBYTECODE="1"), timeout=1800)
        d0 = sh([PY, demo, "/repo"], cwd="/tmp", env=dict(
            os.environ, PYTHONDONTWRITEBYTECODE="1"), timeout=1800)
        meta["demo_on_patched"] = {"exit": d1.returncode,
                                   "tail": d1.stdout.strip()[-300:]}
        meta["demo_on_unchanged"] = {"exit": d0.returncode,
                                     "tail": d0.stdout.strip()[-300:]}
        meta["demo_discriminates"] = (d1.returncode != 0
                                      and d0.returncode == 0)
        meta["checks"] = {}
        for c in checks:
            for tier in ([args.tier] if args.tier == "thorough"
                         else ["quick"]):
                for seed in args.seeds.split(","):
                    e2 = dict(os.environ, VERIF_REPO=scratch,
                              VERIF_SEED=seed)
                    t0 = time.time()
                    p = sh([os.path.join(VERIF, "check"), c, "--tier", tier,
                            "--noevidence"], cwd=VERIF, env=e2)
                    fired = ("VIOLATION property=%s" % c) in p.stdout
                    clauses = sorted(set(
                        l.split("clause=")[1].split(" ")[0]
                        for l in p.stdout.splitlines() if "clause=" in l))
                    meta["checks"]["%s/%s/seed%s" % (c, tier, seed)] = {
                        "violation": fired, "exit": p.returncode,
                        "clauses": clauses[:8],
                        "wall_s": round(time.time() - t0, 1)}
        meta["caught_by"] = sorted(k for k, v in meta["checks"].items()
                                   if v["violation"])
    finally:
        sh(["git", "-C", "/repo", "worktree", "remove", "--force", scratch])
        shutil.rmtree(scratch, ignore_errors=True)
    notes = os.path.join(args.src, "notes.md")
    if os.path.exists(notes):
        with open(notes) as f:
            meta["needs_to_manifest"] = f.read()[:3000]
    meta["what_i_ran"] = ("tools/confirm_seed.py: git apply in a scratch "
                          "worktree of /repo HEAD; repository test-suite; "
                          "demo.py on patched and unchanged tree; "
                          "./check <id> with VERIF_REPO=<scratch>")
    ok = meta["patch_applies"] and meta["suite_passes"] and \
        meta["demo_discriminates"]
    meta["kept"] = bool(ok)
    print(json.dumps({k: meta[k] for k in (
        "patch_applies", "suite", "suite_passes", "demo_discriminates",
        "caught_by", "kept")}, indent=1))
    for k, v in meta["checks"].items():
        print(" ", k, v)
    if ok:
        dst = os.path.join(VERIF, "seeded", args.name)
        os.makedirs(dst, exist_ok=True)
        shutil.copy(patch, os.path.join(dst, "patch.diff"))
        shutil.copy(demo, os.path.join(dst, "demo.py"))
        with open(os.path.join(dst, "meta.json"), "w") as f:
            json.dump(meta, f, indent=1)
    return 0 if ok else 1


if __name__ == "__main__":
    sys.exit(main())
