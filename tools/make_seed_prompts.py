#!/usr/bin/env python3
"""Write the prompt files for a round of independently written
property-breaking changes (one sub-agent per property) and create the scratch
worktrees.  The prompt carries only the property's own text - nothing else
from /verif.

usage: tools/make_seed_prompts.py <round tag, e.g. seed4> <file with the
       round-specific 'ALREADY TRIED / WHAT TO LOOK FOR' paragraph; the token
       {TRIED} in it is replaced per property from seeded/*/meta.json>"""
import glob
import json
import os
import subprocess
import sys

VERIF = os.path.dirname(os.path.dirname(os.path.abspath(__file__)))

TEMPLATE = """You are helping to evaluate a verification effort for the open-source Python library pymeeus (Jean Meeus' astronomical algorithms). You have your own scratch git worktree of the library at {wt} (a checkout of the current HEAD). Work ONLY inside {wt} and {out}. Do not read or touch /repo, /verif or any other directory, and do not run anything that would modify files outside {wt} and {out}.

A semantic property of the library that must hold for every input (not just the handful the unit tests sample) is given below. Your job: write ONE small, realistic change to the library source ({wt}/pymeeus/*.py) that BREAKS this property while (a) the package still imports, and (b) the existing test-suite still passes completely. The change should look like a plausible maintenance slip or "optimisation", not sabotage. Do not touch the tests. Keep the diff small (ideally < 15 changed lines).

IMPORTANT: prefer a change that needs something specific to manifest - an unusual input, a multi-step sequence of calls, or two cooperating sites that each look fine alone - NOT one that ordinary use would expose at once.

THE PROPERTY
------------
{pid} - {title}

STATEMENT: {statement}

QUANTIFIED OVER: {quant}

{round_text}

HOW TO RUN THINGS
-----------------
The interpreter is /venv/bin/python (3.12). The system has an editable install of the library pointing elsewhere, so ALWAYS run with PYTHONPATH={wt} so that your worktree is what gets imported, e.g.

    cd {wt} && PYTHONPATH={wt} /venv/bin/python -c "import pymeeus; print(pymeeus.__file__)"    # must print a path under {wt}
    cd {wt} && PYTHONPATH={wt} /venv/bin/python -m pytest -q -p no:cacheprovider tests

Note: tests/test_jupiterMoons.py::TestJupiterMoons::test_is_phenomena fails on the unchanged tree already (known, ignore it); every other test (250) must still pass with your change.

DELIVERABLES (write them into {out})
-------------------------------------
1. {out}/patch.diff  - output of `git -C {wt} diff` for your change (must apply with `git apply` to a clean checkout of HEAD).
2. {out}/demo.py     - a small standalone program (it must do `import sys; sys.path.insert(0, sys.argv[1])` first, where argv[1] is the path of a checkout) that exits 0 and prints PASS when the property holds for the inputs it tries, and exits 1 and prints FAIL (with the witness input and the wrong value) when it does not. It must FAIL on your changed tree and PASS on the unchanged tree. Verify both yourself: run it against {wt} with the change applied, then `git -C {wt} diff > {out}/patch.diff; git -C {wt} apply -R {out}/patch.diff`, run again, `git -C {wt} apply {out}/patch.diff` (do NOT use git stash: the stash is shared with other worktrees).
3. {out}/notes.md    - 5-10 lines: what you changed, why the existing tests do not notice, and exactly what is needed for the breakage to manifest (which inputs / which sequence of calls).

Leave {wt} with your change applied (uncommitted) when you finish. In your final message, report: the one-line summary of the change, the pytest result line with the change applied, and the output of demo.py on the changed and on the unchanged tree.
"""


def tried(pid):
    out = []
    for f in sorted(glob.glob(os.path.join(VERIF, "seeded", pid + "-*",
                                           "meta.json"))):
        m = json.load(open(f))
        notes = m.get("needs_to_manifest", "")
        # first bullet / sentence of the author's own notes
        line = ""
        for ln in notes.splitlines():
            ln = ln.strip(" -*#")
            if len(ln) > 40 and not ln.lower().startswith(("c0", "c1", "c2")):
                line = ln
                break
        out.append("(%s) %s" % (m["name"][-1], line[:400]))
    return " ".join(out)


_RANGES = {}


def _ranges(fname):
    """[(first line, last line, qualified name)] of the functions and methods
    of /repo/pymeeus/<fname> (current HEAD)."""
    import ast
    if fname not in _RANGES:
        out = []
        try:
            tree = ast.parse(open(os.path.join("/repo/pymeeus", fname)).read())
        except (OSError, SyntaxError):
            tree = None

        def walk(node, prefix):
            for ch in ast.iter_child_nodes(node):
                if isinstance(ch, (ast.FunctionDef, ast.ClassDef)):
                    q = prefix + ch.name
                    if isinstance(ch, ast.FunctionDef):
                        out.append((ch.lineno, ch.end_lineno, q))
                    walk(ch, q + ".")
        if tree is not None:
            walk(tree, "")
        _RANGES[fname] = out
    return _RANGES[fname]


def touched(pid):
    """Functions changed by the earlier attempts against this property
    (file:function, most frequent first), located from the line numbers of
    the hunks of their patches."""
    import re
    count = {}
    for f in sorted(glob.glob(os.path.join(VERIF, "seeded", pid + "-*",
                                           "patch.diff"))):
        cur = ""
        seen = set()
        for ln in open(f, errors="replace"):
            if ln.startswith("+++ b/"):
                cur = os.path.basename(ln[6:].strip())
            m = re.match(r"@@ -(\d+)(?:,(\d+))? ", ln)
            if m:
                mid = int(m.group(1)) + int(m.group(2) or 1) // 2
                best = None
                for a, b, q in _ranges(cur):
                    if a - 3 <= mid <= b + 3 and (
                            best is None or b - a < best[1] - best[0]):
                        best = (a, b, q)
                k = "%s:%s" % (cur, best[2] if best else "(module level)")
                if k not in seen:
                    seen.add(k)
                    count[k] = count.get(k, 0) + 1
    return ", ".join("%s (%d)" % kv for kv in sorted(
        count.items(), key=lambda kv: (-kv[1], kv[0])))


def main():
    tag, textfile = sys.argv[1], sys.argv[2]
    round_text = open(textfile).read()
    head = subprocess.run(["git", "-C", "/repo", "rev-parse", "HEAD"],
                          capture_output=True, text=True).stdout.strip()
    for line in open(os.path.join(VERIF, "properties.jsonl")):
        p = json.loads(line)
        pid = p["id"]
        wt = "/tmp/%s-%s" % (tag, pid)
        out = "/tmp/%s-out/%s" % (tag, pid)
        os.makedirs(out, exist_ok=True)
        txt = TEMPLATE.format(wt=wt, out=out, pid=pid, title=p["title"],
                              statement=p["statement"],
                              quant=p["quantifier"]["text"],
                              round_text=round_text.replace(
                                  "{TRIED}", tried(pid)).replace(
                                  "{TOUCHED}", touched(pid)))
        with open(os.path.join(out, "prompt.txt"), "w") as f:
            f.write(txt)
        subprocess.run(["git", "-C", "/repo", "worktree", "add", "--detach",
                        wt, head], capture_output=True)
    print("prompts in /tmp/%s-out/*/prompt.txt; worktrees /tmp/%s-Cxx at %s"
          % (tag, tag, head[:7]))


if __name__ == "__main__":
    main()
