"""vpm: runtime monitors for the pymeeus properties C01..C20.

Everything here runs the real pymeeus code from ${VERIF_REPO:-/repo} under
generated workloads while monitors record what they observe.
"""
