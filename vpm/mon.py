"""The monitor: an in-process event recorder.  Oracles call check()/dev();
nothing here raises into the code under observation."""
import json
import math

MAX_STORED_PER_KEY = 6
MAX_SAMPLES_PER_CLASS = 2
MASK = (1 << 64) - 1


def jsonable(x, depth=0):
    """Turn a value into something json can carry without losing floats."""
    if depth > 6:
        return repr(x)
    if x is None or isinstance(x, (bool, int, str)):
        return x
    if isinstance(x, float):
        if math.isnan(x) or math.isinf(x):
            return repr(x)
        return x
    if isinstance(x, (list, tuple)):
        return [jsonable(v, depth + 1) for v in x]
    if isinstance(x, dict):
        return {str(k): jsonable(v, depth + 1) for k, v in x.items()}
    if hasattr(x, "_deg"):
        return {"Angle": x._deg}
    if hasattr(x, "_jde"):
        return {"Epoch": x._jde}
    return repr(x)


class Monitor(object):
    def __init__(self, prop, shard="-"):
        self.prop = prop
        self.shard = shard
        self.clauses = {}      # clause -> [checked, deviating]
        self.devs = []         # stored deviation records
        self.devcount = {}     # "clause|key" -> count
        self.classes = {}      # input class -> count of cases that fell in it
        self.nontriv = set()   # 64-bit digests of distinct non-trivial cases
        self.samples = {}      # class -> [cases]
        self.evals = 0         # monitored executions of library code
        self.contracts = {}    # contract/hook name -> evaluations
        self.stats = {}        # name -> [max value, case]
        self.cur = None        # (kind, params) of the case being executed
        self.internal = []     # errors of the monitor machinery itself
        self.refusals = {}     # documented refusals seen (name -> count)
        self.recent = []       # the few cases executed before the current one

    # ---- workload bookkeeping -------------------------------------------
    def begin(self, kind, params):
        if self.cur is not None:
            self.recent.append(self.cur)
            if len(self.recent) > 6:
                del self.recent[0]
        self.cur = (kind, params)

    def cls(self, name, ident=None, sample=None):
        """Record that the current case falls in the non-trivial class
        `name`; `ident` identifies the case for distinct counting."""
        self.classes[name] = self.classes.get(name, 0) + 1
        if ident is not None:
            self.nontriv.add(hash(ident) & MASK)
        if sample is not None:
            s = self.samples.setdefault(name, [])
            if len(s) < MAX_SAMPLES_PER_CLASS:
                s.append(jsonable(sample))

    def stat(self, name, value, case=None):
        cur = self.stats.get(name)
        if cur is None or value > cur[0]:
            self.stats[name] = [value, jsonable(case)]

    def hit(self, name, n=1):
        self.contracts[name] = self.contracts.get(name, 0) + n

    def refusal(self, name):
        self.refusals[name] = self.refusals.get(name, 0) + 1

    # ---- verdict events --------------------------------------------------
    def check(self, clause, ok, detail=None, key=None):
        c = self.clauses.get(clause)
        if c is None:
            c = self.clauses[clause] = [0, 0]
        c[0] += 1
        if not ok:
            c[1] += 1
            self._store(clause, detail, key)
        return ok

    def ok(self, clause, n=1):
        c = self.clauses.get(clause)
        if c is None:
            c = self.clauses[clause] = [0, 0]
        c[0] += n

    def dev(self, clause, detail=None, key=None):
        self.check(clause, False, detail, key)

    def _store(self, clause, detail, key):
        if callable(detail):
            detail = detail()
        if callable(key):
            key = key()
        ck = "%s\x1f%s" % (clause, key if key else "")
        n = self.devcount.get(ck, 0)
        self.devcount[ck] = n + 1
        if n < MAX_STORED_PER_KEY:
            self.devs.append({
                "clause": clause, "key": key, "detail": jsonable(detail),
                "kind": self.cur[0] if self.cur else None,
                "params": jsonable(self.cur[1]) if self.cur else None,
                "shard": self.shard,
                # what the process had executed just before: a deviation that
                # depends on call history replays only with these in front
                "preceding": [jsonable(c) for c in self.recent
                              if len(repr(c)) < 1500],
            })

    def error(self, where, exc):
        """The monitor machinery itself failed (not the code under test)."""
        if len(self.internal) < 20:
            self.internal.append({"where": where, "error": repr(exc),
                                  "case": jsonable(self.cur)})

    # ---- transport ----------------------------------------------------------
    def to_dict(self):
        return {
            "shard": self.shard, "clauses": self.clauses, "devs": self.devs,
            "devcount": self.devcount, "classes": self.classes,
            "samples": self.samples, "evals": self.evals,
            "contracts": self.contracts, "stats": self.stats,
            "internal": self.internal, "refusals": self.refusals,
            "nontriv_n": len(self.nontriv),
        }

    def dump(self, path):
        from array import array
        with open(path + ".bin", "wb") as f:
            array("Q", sorted(self.nontriv)).tofile(f)
        with open(path, "w") as f:
            json.dump(self.to_dict(), f)


def expect_raises(mon, clause, exc_types, fn, detail=None, key=None):
    """Run fn(); the clause holds iff it raises one of exc_types."""
    try:
        r = fn()
    except exc_types:
        mon.check(clause, True)
        return True
    except Exception as e:  # another class
        mon.check(clause, False,
                  {"case": detail, "raised": repr(e)}, key)
        return False
    mon.check(clause, False, {"case": detail, "returned": jsonable(r)}, key)
    return False


def rt(s):
    """An equal string object built at run time (not the interned literal of
    the source): what a caller gets from a file, a command line or
    str.lower().  A library that compares strings by identity fails on it."""
    return "".join(list(s)) if len(s) > 1 else s
