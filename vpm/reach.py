"""sys.monitoring LINE observer restricted to the anchored functions of a
property.  Coverage mode: each line reports once, then is disabled.  Used for
evidence and for the inconclusive verdict only."""
import inspect
import sys

TOOL = 3
_state = {"on": False, "hits": {}, "codes": {}}


def _code_of(f):
    if isinstance(f, (staticmethod, classmethod)):
        f = f.__func__
    f = getattr(f, "__wrapped__", f)
    return getattr(f, "__code__", None)


def watch(funcs):
    """funcs: {label: function}.  Start observing their lines."""
    if not hasattr(sys, "monitoring"):
        return False
    mon = sys.monitoring
    try:
        mon.use_tool_id(TOOL, "vpm-reach")
    except ValueError:
        pass
    hits = _state["hits"]
    codes = _state["codes"]

    def on_line(code, line):
        hits.setdefault(code, set()).add(line)
        return mon.DISABLE

    mon.register_callback(TOOL, mon.events.LINE, on_line)
    for label, f in funcs.items():
        co = _code_of(f)
        if co is None:
            continue
        codes[label] = co
        mon.set_local_events(TOOL, co, mon.events.LINE)
    _state["on"] = True
    return True


def report(points=None):
    """points: {name: (label, source pattern)} — named reach points located by
    pattern inside the watched function `label`.
    Returns {functions: {label: [hit, total]}, points: {name: status}}."""
    out = {"functions": {}, "points": {}}
    if not _state["on"]:
        return out
    for label, co in _state["codes"].items():
        lines = set(l for (_, _, l) in co.co_lines() if l is not None)
        lines.discard(co.co_firstlineno)
        hit = _state["hits"].get(co, set())
        out["functions"][label] = [sorted(hit & lines), len(lines)]
    for name, (label, pattern) in (points or {}).items():
        co = _state["codes"].get(label)
        if co is None:
            out["points"][name] = "not present"
            continue
        try:
            src, first = inspect.getsourcelines(co)
        except (OSError, TypeError):
            out["points"][name] = "not present"
            continue
        target = [first + i for i, s in enumerate(src) if pattern in s]
        valid = set(l for (_, _, l) in co.co_lines() if l is not None)
        target = [t for t in target if t in valid]
        if not target:
            out["points"][name] = "not present"
        elif any(t in _state["hits"].get(co, ()) for t in target):
            out["points"][name] = "hit"
        else:
            out["points"][name] = "missed"
    return out
