"""Run the repository's own test-suite under the monitors (pytest plugin) and
fold what they recorded into the calling shard's monitor."""
import json
import os
import subprocess
import tempfile

from vpm import env


def run_suite(mon, mode):
    fd, out = tempfile.mkstemp(prefix="suite-", suffix=".json", dir=env.WORK)
    os.close(fd)
    os.unlink(out)
    e = dict(os.environ, PYTHONPATH=env.VERIF + os.pathsep + env.REPO,
             PYTHONDONTWRITEBYTECODE="1", VPM_PLUGIN_MODE=mode,
             VPM_PLUGIN_OUT=out)
    p = subprocess.run([env.PY, "-m", "pytest", "-q", "-x", "-p",
                        "no:cacheprovider", "-p", "vpm.pytest_plugin",
                        "--deselect", "tests/test_jupiterMoons.py::"
                        "TestJupiterMoons::test_is_phenomena",
                        # the examples in the docstrings too (281 of them)
                        "--doctest-modules", "--deselect",
                        "pymeeus/JupiterMoons.py::pymeeus.JupiterMoons."
                        "JupiterMoons.is_phenomena",
                        os.path.join(env.REPO, "tests"),
                        os.path.join(env.REPO, "pymeeus")],
                       cwd=env.REPO, env=e, capture_output=True, text=True,
                       timeout=1800)
    if not os.path.exists(out):
        mon.error("suite-under-monitors", RuntimeError(
            "pytest plugin wrote nothing: rc=%d %s" % (p.returncode,
                                                       p.stdout[-300:])))
        return
    with open(out) as f:
        r = json.load(f)
    os.unlink(out)
    for k, v in r["clauses"].items():
        c = mon.clauses.setdefault("suite:" + k, [0, 0])
        c[0] += v[0]
        c[1] += v[1]
    for d in r["devs"]:
        d = dict(d, clause="suite:" + d["clause"])
        mon.devs.append(d)
    for k, v in r["devcount"].items():
        mon.devcount["suite:" + k] = mon.devcount.get("suite:" + k, 0) + v
    for k, v in r["classes"].items():
        mon.classes[k] = mon.classes.get(k, 0) + v
    for k, v in r["contracts"].items():
        mon.hit("suite:" + k, v)
    for k, v in r.get("samples", {}).items():
        mon.samples.setdefault(k, []).extend(v[:2])
    mon.evals += r["evals"]
    mon.hit("suite:tests-run", r["evals"])
    # the suite itself must pass on the tree under test (a failing test
    # changes what the workload covers, it is not a verdict of this check)
    mon.hit("suite:pytest-exit-%d" % r.get("pytest_exitstatus", -1))
