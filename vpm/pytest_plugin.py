"""pytest plugin: run the repository's own test-suite as one more workload
under the monitors.

    VPM_PLUGIN_MODE=invariants  icontract class invariants on Angle and Epoch
    VPM_PLUGIN_MODE=digests     digest of every module-level table/constant
                                before the first and after every test
    VPM_PLUGIN_OUT=<file>       where the monitor's result is written

Used by the C03 and C20 checks (shard "suite").  Nothing here changes the
outcome of a test: monitors record and return."""
import json
import os

_state = {}


def pytest_configure(config):
    from vpm import env
    from vpm.mon import Monitor
    env.ensure_deps()
    env.import_repo()
    mode = os.environ.get("VPM_PLUGIN_MODE", "invariants")
    mon = Monitor("suite", "repo-test-suite")
    _state["mon"] = mon
    _state["mode"] = mode
    if mode == "invariants":
        from vpm import attach
        attach.angle_invariant(mon)
        attach.epoch_invariant(mon)
    else:
        from vpm.props import c20
        _state["digest_fn"] = c20.module_digest
        _state["digest"] = c20.module_digest()


def pytest_runtest_setup(item):
    mon = _state.get("mon")
    if mon is not None:
        mon.begin("repo-test", [item.nodeid])


def pytest_runtest_teardown(item, nextitem):
    mon = _state.get("mon")
    if mon is None:
        return
    mon.evals += 1
    mon.cls("repository-test", (item.nodeid,), item.nodeid
            if mon.evals % 40 == 1 else None)
    if _state["mode"] == "digests":
        _state.setdefault("since", []).append(item.nodeid)
        # a digest costs ~0.3 s: take it every 10 tests and after the last
        if mon.evals % 10 == 0 or nextitem is None:
            from vpm.props import c20
            d = _state["digest_fn"]()
            ch = c20.digest_changes(_state["digest"], d)
            mon.check("module-tables-unchanged", not ch,
                      {"changed_modules": ch,
                       "tests_since_last_digest": _state["since"][-10:]})
            _state["digest"] = d
            _state["since"] = []


def pytest_sessionfinish(session, exitstatus):
    mon = _state.get("mon")
    out = os.environ.get("VPM_PLUGIN_OUT")
    if mon is None or not out:
        return
    res = mon.to_dict()
    res["pytest_exitstatus"] = int(exitstatus)
    with open(out, "w") as f:
        json.dump(res, f)
