"""One shard of one property's workload, in its own process.
usage: python -m vpm.worker <Cxx> <spec.json> <out.json>"""
import importlib
import json
import os
import sys
import time
import traceback


def main():
    prop, spec_path, out_path = sys.argv[1:4]
    from vpm import env, reach
    from vpm.mon import Monitor
    env.ensure_deps()
    env.import_repo()
    with open(spec_path) as f:
        spec = json.load(f)
    if spec.get("tz"):
        # the process's time zone is part of the environment a library call
        # may (wrongly) depend on: some shards run away from UTC
        os.environ["TZ"] = spec["tz"]
        time.tzset()
    mod = importlib.import_module("vpm.props." + prop.lower())
    mon = Monitor(prop, spec.get("name", "-"))
    t0 = time.time()
    watched = False
    if hasattr(mod, "anchors") and os.environ.get("VERIF_NOREACH") != "1":
        try:
            watched = reach.watch(mod.anchors())
        except Exception as e:  # evidence only; never fatal
            mon.error("reach.watch", e)
    try:
        mod.run(mon, spec)
        status = "done"
    except Exception as e:
        status = "crashed"
        # Who raised?  If the innermost frame is library code, the library
        # refused or failed on a call the monitor makes as a matter of
        # course on the unchanged tree: that is an observation about the
        # library (reported as a deviation, with the case that was being
        # executed), not a fault of the monitor.  Anything else is a monitor
        # error and makes the verdict inconclusive.
        tb = traceback.extract_tb(e.__traceback__)
        inner = tb[-1].filename if tb else ""
        repo = os.path.realpath(env.REPO)
        if os.path.realpath(inner).startswith(repo + os.sep):
            mon.dev("library-raised-where-the-workload-expects-an-answer",
                    {"raised": repr(e), "at": "%s:%s in %s" % (
                        os.path.relpath(os.path.realpath(inner), repo),
                        tb[-1].lineno, tb[-1].name),
                     "called_from": next(
                         ("%s:%s in %s" % (os.path.basename(f.filename),
                                           f.lineno, f.name)
                          for f in reversed(tb)
                          if "/vpm/" in f.filename), None)})
        mon.error("run:" + traceback.format_exc(limit=6), e)
    res = mon.to_dict()
    res["status"] = status
    res["wall_s"] = time.time() - t0
    if watched:
        res["reach"] = reach.report(getattr(mod, "POINTS", None))
    mon.dump(out_path)          # writes the .bin of digests
    with open(out_path, "w") as f:
        json.dump(res, f)


if __name__ == "__main__":
    main()
