"""Parser for /verif/known_findings.txt (read-only at run time).

    finding: property=C16 key=doy.gap1582 :: what fails, one witness
    fixed: property=C03 <commit> what failed

A `finding` line makes deviations carrying exactly that classifier key a
KNOWN-FINDING for that property.  A `fixed` line suppresses nothing.
"""
import os
import re

from vpm import env

PATH = os.path.join(env.VERIF, "known_findings.txt")
_F = re.compile(r"^finding:\s+property=(C\d+)\s+key=(\S+)\s+::\s*(.*)$")
_X = re.compile(r"^fixed:\s+property=(C\d+)\s+(\S+)\s+(.*)$")


def load(path=PATH):
    known, fixed = {}, []
    if not os.path.exists(path):
        return known, fixed
    with open(path) as f:
        for line in f:
            line = line.strip()
            m = _F.match(line)
            if m:
                known.setdefault(m.group(1), {})[m.group(2)] = m.group(3)
                continue
            m = _X.match(line)
            if m:
                fixed.append((m.group(1), m.group(2), m.group(3)))
    return known, fixed
