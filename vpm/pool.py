"""Long-lived argument objects.

A caller of the library often keeps one Epoch (or Angle) object and re-sets
it in place for each computation.  Results must depend on the value the object
holds now, not on what it held - or what was computed from it - before.
epoch(slot, jde) returns, every other call, the slot's long-lived Epoch
re-set to `jde` (after it has been through whatever the previous cases did
with it), and a fresh Epoch otherwise; the oracle that judges the result
does not know which one it got.  A slot is private to one call site, so two
objects that are alive at once never share one."""
_SLOTS = {}
_N = {"n": 0, "pooled": 0}


def epoch(slot, *args):
    from pymeeus.Epoch import Epoch
    _N["n"] += 1
    if _N["n"] % 2:
        return Epoch(*args)
    _N["pooled"] += 1
    e = _SLOTS.get(("E", slot))
    if e is None:
        e = _SLOTS[("E", slot)] = Epoch(2451545.0)
    e.set(*args)
    return e


def angle(slot, *args):
    from pymeeus.Angle import Angle
    _N["n"] += 1
    if _N["n"] % 2:
        return Angle(*args)
    _N["pooled"] += 1
    a = _SLOTS.get(("A", slot))
    if a is None:
        a = _SLOTS[("A", slot)] = Angle(0.0)
    a.set(*args)
    return a


def pooled_count():
    return _N["pooled"]
