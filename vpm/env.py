"""Process set-up shared by runner and workers: where the repository is, how
pymeeus is imported from the working tree, where third-party deps live."""
import fcntl
import hashlib
import os
import subprocess
import sys

VERIF = os.path.dirname(os.path.dirname(os.path.abspath(__file__)))
REPO = os.environ.get("VERIF_REPO", "/repo")
DEPS = os.path.join(VERIF, ".deps")
WORK = os.path.join(VERIF, ".work")
PY = "/venv/bin/python"
WHEELS = "/opt/veriftools/wheels"


def ensure_deps():
    """Install icontract offline into /verif/.deps if it is not there yet.
    Safe to call from many processes at once (file lock)."""
    marker = os.path.join(DEPS, "icontract")
    if not os.path.isdir(marker):
        os.makedirs(WORK, exist_ok=True)
        with open(os.path.join(WORK, ".deps.lock"), "w") as lk:
            fcntl.flock(lk, fcntl.LOCK_EX)
            if not os.path.isdir(marker):
                subprocess.run(
                    [PY, "-m", "pip", "install", "--quiet", "--no-index",
                     "--find-links", WHEELS, "--target", DEPS, "icontract"],
                    check=True, stdout=subprocess.DEVNULL,
                    stderr=subprocess.DEVNULL,
                    env=dict(os.environ, PIP_NO_INDEX="1"))
    if DEPS not in sys.path:
        sys.path.append(DEPS)


def import_repo():
    """Put the repository's working tree first on sys.path and check that the
    pymeeus that gets imported is that one."""
    sys.dont_write_bytecode = True
    if sys.path[0] != REPO:
        sys.path.insert(0, REPO)
    import pymeeus  # noqa
    root = os.path.realpath(os.path.dirname(pymeeus.__file__))
    want = os.path.realpath(os.path.join(REPO, "pymeeus"))
    if root != want:
        raise RuntimeError("pymeeus imported from %s, wanted %s" % (root, want))
    return root


def repo_fingerprint():
    """HEAD commit and a digest of the pymeeus sources actually on disk."""
    try:
        head = subprocess.run(["git", "-C", REPO, "rev-parse", "HEAD"],
                              capture_output=True, text=True).stdout.strip()
    except Exception:
        head = "unknown"
    h = hashlib.sha256()
    d = os.path.join(REPO, "pymeeus")
    for name in sorted(os.listdir(d)):
        if name.endswith(".py"):
            with open(os.path.join(d, name), "rb") as f:
                h.update(name.encode())
                h.update(f.read())
    return head, h.hexdigest()
