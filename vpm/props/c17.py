"""C17 - curve fitting returns the least-squares solution."""
import itertools
import math
import random
from fractions import Fraction

ID = "C17"
RULE = ("Seeded generation of data sets with n = 2..200 points, abscissae in "
        "[-1e3, 1e3] spread or clustered (cluster width 1e-3..1), ordinates "
        "noiseless (from the basis) or with Gaussian noise; basis sets drawn "
        "from {1, x, x^2, sin kx, cos kx, exp(x/100)}. Oracle: the floats "
        "handed to the library (basis-function values too) are converted to "
        "Fractions and the normal equations are solved exactly; only cases "
        "whose column-scaled Gram matrix has determinant >= 1e-3 (2 columns: "
        ">= 1e-4) are judged ('well-conditioned'). Also: residual "
        "orthogonality with the library's coefficients, all permutations "
        "(n <= 5) or 12 random ones, 4 input forms, general(x^2,x,1) vs "
        "quadratic, general(x,1) vs linear, correlation-coefficient "
        "invariances, degenerate sets (all x equal, fewer distinct x than "
        "parameters, constant y, dependent basis). Non-trivial = n <= 3, "
        "clustered abscissae, degenerate set, non-polynomial basis; distinct "
        "by (data, basis).")
ASSUMPTIONS = [
    "well-conditioned = determinant of the column-scaled Gram matrix >= 1e-3 "
    "(three basis functions) or >= 1e-4 (two), computed exactly; the "
    "closed-form determinants lose about 1e-11/det (three) and 2e-11/det "
    "(two) of relative accuracy on the unchanged tree, so these thresholds "
    "leave a factor >= 10 below the property's 1e-6",
    "order/form independence compared at relative 1e-6 (the property gives "
    "no number; summation order changes rounding, amplified as above)",
    "correlation clauses judged only when n*Sum(x^2) - (Sum x)^2 is at least "
    "1e-6 of n*Sum(x^2) (same for y, and for the rescaled data)",
    "degenerate = exactly rank-deficient in rational arithmetic; a trailing "
    "basis function that is zero on every abscissa counts as 'not given' "
    "(the library's defaults are null functions)",
]
EXHAUSTIVE = {"quick": False, "thorough": False}


def anchors():
    from pymeeus.CurveFitting import CurveFitting as CF
    return {"CurveFitting.linear_fitting": CF.linear_fitting,
            "CurveFitting.quadratic_fitting": CF.quadratic_fitting,
            "CurveFitting.general_fitting": CF.general_fitting,
            "CurveFitting.correlation_coeff": CF.correlation_coeff,
            "CurveFitting.set": CF.set}


POINTS = {
    "linear.degenerate": ("CurveFitting.linear_fitting",
                          "raise ZeroDivisionError"),
    "quadratic.degenerate": ("CurveFitting.quadratic_fitting",
                             "raise ZeroDivisionError"),
    "general.one-function": ("CurveFitting.general_fitting",
                             "return (u / m, 0.0, 0.0)"),
    "general.solve": ("CurveFitting.general_fitting",
                      "a = (u * (r * t - s * s)"),
}
REQUIRED_POINTS = list(POINTS)
REQUIRED_CLAUSES = ["independent-of-other-instances",
                    "independent-of-callers-lists",
                    "general.temporary-functions-on-reused-object", "linear==exact", "quadratic==exact", "general==exact",
                    "residual-orthogonal", "order-and-form-independent",
                    "general(x2,x,1)==quadratic", "general(x,1)==linear",
                    "corr.range", "corr.collinear==+-1",
                    "corr.affine-invariant", "corr.sign-flip",
                    "degenerate->ZeroDivisionError"]

BASIS = {
    "1": lambda x: 1.0, "x": lambda x: x, "x2": lambda x: x * x,
    "sin1": lambda x: math.sin(math.radians(x)),
    "sin2": lambda x: math.sin(2.0 * math.radians(x)),
    "sin3": lambda x: math.sin(3.0 * math.radians(x)),
    "cos1": lambda x: math.cos(math.radians(x)),
    "exp": lambda x: math.exp(x / 100.0),
}


def shards(tier, seed):
    mult = 30 if tier == "thorough" else 1
    return [{"name": "s%02d" % i, "idx": i, "n": 1200 * mult}
            for i in range(16)]


# ----------------------------------------------------------------- exact LS
def solve_exact(cols, y):
    """cols: list of k lists of Fractions (basis values), y Fractions.
    Returns (coefficients or None if singular, det of column-scaled Gram)."""
    k = len(cols)
    G = [[sum(a * b for a, b in zip(cols[i], cols[j])) for j in range(k)]
         for i in range(k)]
    rhs = [sum(a * b for a, b in zip(cols[i], y)) for i in range(k)]
    # determinant of the scaled Gram matrix G_ij / sqrt(G_ii G_jj):
    # det(G) / prod(G_ii)
    det = _det(G)
    diag = 1
    for i in range(k):
        diag *= G[i][i]
    if diag == 0 or det == 0:
        return None, 0.0
    sol = _gauss(G, rhs)
    return sol, float(det / diag)


def _det(M):
    k = len(M)
    if k == 1:
        return M[0][0]
    if k == 2:
        return M[0][0] * M[1][1] - M[0][1] * M[1][0]
    return (M[0][0] * (M[1][1] * M[2][2] - M[1][2] * M[2][1])
            - M[0][1] * (M[1][0] * M[2][2] - M[1][2] * M[2][0])
            + M[0][2] * (M[1][0] * M[2][1] - M[1][1] * M[2][0]))


def _gauss(G, rhs):
    k = len(G)
    A = [list(G[i]) + [rhs[i]] for i in range(k)]
    for c in range(k):
        piv = next((r for r in range(c, k) if A[r][c] != 0), None)
        if piv is None:
            return None
        A[c], A[piv] = A[piv], A[c]
        for r in range(k):
            if r != c and A[r][c] != 0:
                f = A[r][c] / A[c][c]
                A[r] = [a - f * b for a, b in zip(A[r], A[c])]
    return [A[i][k] / A[i][i] for i in range(k)]


def rel_err(got, want, floor=0.0):
    scale = max(max(abs(float(w)) for w in want), floor, 1e-300)
    return max(abs(Fraction(g) - w) for g, w in zip(got, want)) / \
        Fraction(scale)


# ------------------------------------------------------------------ generators
def gen_x(rng, n):
    r = rng.random()
    if r < 0.06:
        return [float(i) for i in range(n)], "implied"
    if r < 0.16:
        # exactly symmetric about 0: sums of odd functions vanish, so do
        # the cross sums of an even with an odd basis function
        half = [rng.choice((float(rng.randrange(1, 60)),
                            rng.uniform(0.1, 90.0)))
                for _ in range(n // 2)]
        xs = [v for h in half for v in (h, -h)] + ([0.0] if n % 2 else [])
        rng.shuffle(xs)
        return xs, "symmetric"
    if r < 0.35:
        return [rng.uniform(-1e3, 1e3) for _ in range(n)], "spread"
    if r < 0.55:
        c = rng.uniform(-1e3, 1e3)
        w = 10.0 ** rng.uniform(-3, 0)
        return [c + rng.uniform(-w, w) for _ in range(n)], "clustered"
    if r < 0.75:
        x0 = rng.choice((0, -2.0, 1, 10, -50))
        h = rng.choice((1, 0.5, 2, 10, 0.25))
        return [x0 + h * i for i in range(n)], "grid"
    if r < 0.9:
        return [float(rng.randrange(-100, 101)) for _ in range(n)], "ints"
    return [rng.uniform(-10, 10) for _ in range(n)], "small"


def gen_case(rng):
    r = rng.random()
    if r < 0.25:
        n = rng.randrange(2, 6)
    elif r < 0.8:
        n = rng.randrange(6, 40)
    else:
        n = rng.randrange(40, 201)
    xs, xkind = gen_x(rng, n)
    names = rng.choice((["x", "1"], ["x2", "x", "1"], ["x2", "x", "1"],
                        ["sin1", "sin2", "sin3"], ["sin1", "cos1", "1"],
                        ["exp", "x", "1"], ["sin1"], ["x"],
                        ["cos1", "x"], ["x2", "1"],
                        # basis functions of mixed parity in every position
                        ["x2", "1", "x"], ["1", "cos1", "sin1"],
                        ["sin1", "sin2", "1"], ["x", "1", "x2"],
                        ["1", "x", "cos1"], ["sin1", "x2", "x"]))
    co = [rng.choice((1.0, -2.0, 3.5, 0.39, -0.77, 1.2, 7.0,
                      rng.uniform(-10, 10))) for _ in names]
    noise = rng.choice((0.0, 0.0, 0.01, 1.0, 10.0))
    ys = []
    for x in xs:
        v = sum(c * BASIS[nm](x) for c, nm in zip(co, names))
        if noise:
            v += rng.gauss(0.0, noise)
        ys.append(v)
    return xs, ys, names, xkind, noise


# ------------------------------------------------------------------- cases
def lib_fit(cf, names):
    """Call the library fit that corresponds to a basis set."""
    if names == ["x", "1"]:
        return "linear", cf.linear_fitting()
    if names == ["x2", "x", "1"]:
        return "quadratic", cf.quadratic_fitting()
    fs = [BASIS[nm] for nm in names]
    return "general", cf.general_fitting(*fs)[:len(names)]


def case_fit(mon, xs, ys, names, pseed):
    from pymeeus.CurveFitting import CurveFitting as CF
    rng = random.Random(pseed)
    mon.evals += 1
    n = len(xs)
    k = len(names)
    ident = ("fit", tuple(xs[:8]), tuple(ys[:8]), tuple(names), n)
    case = {"n": n, "x": xs[:8], "y": ys[:8], "basis": names}
    cols = [[Fraction(BASIS[nm](x)) for x in xs] for nm in names]
    Y = [Fraction(v) for v in ys]
    # a basis function that vanishes on every abscissa is, for the library,
    # the same as a function that was not given (its defaults are null
    # functions): fit the remaining ones
    if k > 1 and names not in (["x", "1"], ["x2", "x", "1"]):
        keep = [j for j in range(k) if any(c != 0 for c in cols[j])]
        if 0 < len(keep) < k and keep == list(range(len(keep))):
            names = [names[j] for j in keep]
            cols = [cols[j] for j in keep]
            k = len(names)
            mon.cls("trailing-null-basis-function", ident)
    # ... and a function whose values are all below 1e-9 without being zero
    # (cos x at +-90 degrees: 6e-17) is null for the library's absolute
    # tolerance but not for an exact solver: not judged
    if any(0 < max(abs(float(c)) for c in col) < 1e-9 for col in cols):
        mon.refusal("numerically-null-basis-function(not judged)")
        return
    sol, detg = solve_exact(cols, Y)
    distinct = len(set(xs))
    if n <= 3:
        mon.cls("n<=3", ident, [xs, ys, names])
    if max(xs) - min(xs) <= 2.0 and abs(xs[0]) > 10:
        mon.cls("clustered-abscissae", ident)
    if any(nm not in ("1", "x", "x2") for nm in names):
        mon.cls("non-polynomial-basis", ident)
    own_x, own_y = list(xs), list(ys)      # the caller's own lists
    try:
        cf = CF(own_x, own_y)
    except Exception as ex:
        mon.dev("order-and-form-independent", dict(case, raised=repr(ex)))
        return
    if sol is None or n < k:
        # exactly rank-deficient
        mon.cls("degenerate-set", ident, [xs[:6], ys[:6], names])
        try:
            which, got = lib_fit(cf, names)
        except ZeroDivisionError:
            mon.ok("degenerate->ZeroDivisionError")
            return
        except Exception as ex:
            mon.dev("degenerate->ZeroDivisionError",
                    dict(case, raised=repr(ex)), key_degenerate(xs, names))
            return
        mon.dev("degenerate->ZeroDivisionError",
                dict(case, returned=list(got)), key_degenerate(xs, names))
        return
    thresh = 1e-3 if k == 3 else 1e-4
    if k > 1 and detg < thresh:
        mon.refusal("ill-conditioned(not judged)")
        return
    try:
        which, got = lib_fit(cf, names)
    except Exception as ex:
        mon.dev({"linear": "linear==exact", "quadratic": "quadratic==exact",
                 "general": "general==exact"}[
                     "linear" if names == ["x", "1"] else
                     "quadratic" if names == ["x2", "x", "1"] else
                     "general"], dict(case, scaled_gram_det=detg,
                                      raised=repr(ex)),
                key_fit(names, ex))
        return
    clause = which + "==exact"
    # coefficients that are (nearly) zero are judged against the natural
    # scale of the problem, max|y| / rms(column), times 1e-6
    rms = [math.sqrt(float(sum(c * c for c in col)) / n) for col in cols]
    floor = 1e-6 * max(abs(v) for v in ys) / max(min(rms), 1e-300)
    err = float(rel_err(got, sol, floor))
    mon.stat(which + "_rel_err", err, case)
    mon.check(clause, err <= 1e-6,
              lambda: dict(case, got=list(got), exact=[float(s) for s in sol],
                           scaled_gram_det=detg, rel_err=err))
    # residual orthogonality with the library's own coefficients
    res = [Y[i] - sum(Fraction(g) * cols[j][i] for j, g in enumerate(got))
           for i in range(n)]
    ok = True
    for j in range(k):
        dot = abs(sum(r * c for r, c in zip(res, cols[j])))
        bound = (Fraction(1, 10 ** 6) * sum(abs(r) * abs(c)
                                             for r, c in zip(res, cols[j]))
                 + Fraction(1, 10 ** 9) * sum(abs(yy) * abs(c)
                                              for yy, c in zip(Y, cols[j])))
        if dot > bound:
            ok = False
    mon.check("residual-orthogonal", ok,
              lambda: dict(case, got=list(got), scaled_gram_det=detg))
    # order / form independence
    perms = []
    if n <= 5:
        perms = list(itertools.permutations(range(n)))[1:]
    else:
        for _ in range(12):
            p = list(range(n))
            rng.shuffle(p)
            perms.append(p)
    scale = max(max(abs(float(s)) for s in sol), floor)
    worst = 0.0
    bad = None
    for p in perms[:24]:
        mon.evals += 1
        try:
            g2 = lib_fit(CF([xs[i] for i in p], [ys[i] for i in p]),
                         names)[1]
            e2 = max(abs(a - b) for a, b in zip(g2, got)) / scale
        except Exception as ex:
            e2, g2 = float("inf"), repr(ex)
        if e2 > worst:
            worst, bad = e2, g2
    flat = []
    for a, b in zip(xs, ys):
        flat += [a, b]
    forms = {"tuples": lambda: CF(tuple(xs), tuple(ys)),
             "copy": lambda: CF(CF(list(xs), list(ys))),
             "via-set": lambda: _via_set(xs, ys)}
    if n >= 2:
        forms["flat"] = lambda: CF(*flat)
    if list(xs) == list(range(n)):
        # ordinates only: the abscissae 0, 1, 2, ... are implied
        forms["y-only"] = lambda: CF(list(ys))
        forms["y-only-tuple-via-set"] = lambda: _via_set_y(ys)
        mon.cls("form:y-only", ident)
    for name, fn in forms.items():
        mon.evals += 1
        try:
            g2 = lib_fit(fn(), names)[1]
            e2 = max(abs(a - b) for a, b in zip(g2, got)) / scale
        except Exception as ex:
            e2, g2 = float("inf"), [name, repr(ex)]
        if e2 > worst:
            worst, bad = e2, g2
    mon.stat("order_form_spread_rel", worst if worst != float("inf") else 1e9,
             case)
    # the closed-form solution divides by a determinant that has lost
    # about 1e-10 / (scaled Gram determinant) to cancellation; two orders of
    # summation differ by that much (measured 3.4e-10 / det on 31 clustered
    # points, 24 permutations)
    tol_order = 1e-6 + (1e-9 / detg if k > 1 and detg > 0 else 0.0)
    mon.check("order-and-form-independent", worst <= tol_order,
              lambda: dict(case, reference=list(got), other=bad,
                           spread_rel=worst))
    # the lists the object was built from remain the caller's: overwriting
    # them afterwards does not reach the object (dedicated and general fit,
    # and a copy taken now, still answer for the data that were loaded)
    try:
        g_before = tuple(cf.general_fitting(*[BASIS[v] for v in names]))
        own_x[0] = own_x[0] + 17.0
        own_y.reverse()
        own_x.append(3.0)
        again = list(lib_fit(cf, names)[1])
        g_after = tuple(cf.general_fitting(*[BASIS[v] for v in names]))
        c_after = list(lib_fit(CF(cf), names)[1])
        ok_own = again == list(got) and g_after == g_before \
            and c_after == list(got)
    except Exception as ex:
        ok_own, again, g_after, c_after = False, repr(ex), None, None
    mon.check("independent-of-callers-lists", ok_own,
              lambda: dict(case, before=list(got), after=again,
                           general_after=g_after, copy_after=c_after))
    # the first object, now that the permuted / copied / re-set ones above
    # have been built and fitted, still gives bit-for-bit what it gave alone
    try:
        again = list(lib_fit(cf, names)[1])
    except Exception as ex:
        again = repr(ex)
    mon.check("independent-of-other-instances", again == list(got),
              lambda: dict(case, alone=list(got),
                           with_other_instances=again))
    # several general fits in a row on the one object, each with function
    # objects made for that call only (inline lambdas, as in the library's
    # documentation): each must be, bit for bit, what a fresh object gives
    # with the long-lived functions
    seqs = [rng.sample(sorted(BASIS), rng.randrange(1, 4)) for _ in range(2)]
    seqs.append(list(names))
    for nm in seqs:
        mon.evals += 1
        try:
            ref = CF(list(xs), list(ys)).general_fitting(
                *[BASIS[v] for v in nm])
            ref = ("ok", tuple(ref))
        except Exception as ex:
            ref = ("raised", type(ex).__name__)
        try:
            tmp = cf.general_fitting(*[(lambda x, f=BASIS[v]: f(x))
                                       for v in nm])
            tmp = ("ok", tuple(tmp))
        except Exception as ex:
            tmp = ("raised", type(ex).__name__)
        mon.check("general.temporary-functions-on-reused-object", tmp == ref,
                  lambda: dict(case, basis_sequence=seqs, basis=nm,
                               reused_object_temporary_functions=tmp,
                               fresh_object_named_functions=ref))
    # general fit against the dedicated ones
    if names == ["x2", "x", "1"]:
        try:
            g3 = cf.general_fitting(BASIS["x2"], BASIS["x"], BASIS["1"])
            e3 = max(abs(a - b) for a, b in zip(g3, got)) / scale
        except Exception as ex:
            e3, g3 = float("inf"), repr(ex)
        mon.check("general(x2,x,1)==quadratic", e3 <= 1e-6,
                  lambda: dict(case, quadratic=list(got), general=g3))
    if names == ["x", "1"]:
        try:
            g3 = cf.general_fitting(BASIS["x"], BASIS["1"])
            e3 = max(abs(a - b) for a, b in zip(g3[:2], got)) / scale
            if abs(g3[2]) > 1e-9 * scale:
                e3 = float("inf")
        except Exception as ex:
            e3, g3 = float("inf"), repr(ex)
        mon.check("general(x,1)==linear", e3 <= 1e-6,
                  lambda: dict(case, linear=list(got), general=g3),
                  key_two_functions(g3))


def key_fit(names, ex):
    return None


def key_two_functions(g3):
    return None


def key_degenerate(xs, names):
    return None


def _via_set(xs, ys):
    from pymeeus.CurveFitting import CurveFitting as CF
    o = CF([1, 2, 3], [4, 5, 7])
    o.set(list(xs), list(ys))
    return o


def _via_set_y(ys):
    from pymeeus.CurveFitting import CurveFitting as CF
    o = CF([1, 2, 3], [4, 5, 7])
    o.set(tuple(ys))
    return o


def case_corr(mon, xs, ys, al, be, ga, de):
    from pymeeus.CurveFitting import CurveFitting as CF
    mon.evals += 1
    n = len(xs)
    case = {"n": n, "x": xs[:8], "y": ys[:8]}
    X = [Fraction(v) for v in xs]
    Y = [Fraction(v) for v in ys]
    sxx = n * sum(v * v for v in X) - sum(X) ** 2
    syy = n * sum(v * v for v in Y) - sum(Y) ** 2
    sxy = n * sum(a * b for a, b in zip(X, Y)) - sum(X) * sum(Y)
    if sxx == 0 or syy == 0:
        mon.cls("degenerate-set", ("corr", tuple(xs[:8]), tuple(ys[:8])),
                [xs[:6], ys[:6]])
        try:
            r = CF(list(xs), list(ys)).correlation_coeff()
        except ZeroDivisionError:
            mon.ok("degenerate->ZeroDivisionError")
            return
        except Exception as ex:
            mon.dev("degenerate->ZeroDivisionError",
                    dict(case, fn="correlation_coeff", raised=repr(ex)),
                    key_corr_degenerate(ex))
            return
        mon.dev("degenerate->ZeroDivisionError",
                dict(case, fn="correlation_coeff", returned=r),
                key_corr_degenerate(None))
        return
    # data whose whole spread is below 1e-9 are constant for the library's
    # documented absolute tolerance (1e-10): refusing them and answering are
    # both in keeping with the property, neither is judged
    if max(ys) - min(ys) < 1e-9 or max(xs) - min(xs) < 1e-9:
        mon.refusal("corr-spread-below-absolute-tolerance(not judged)")
        return
    # relative conditioning of the two variances
    cx = float(sxx / (n * sum(v * v for v in X)))
    cy = float(syy / (n * sum(v * v for v in Y)))
    if min(cx, cy) < 1e-6:
        mon.refusal("corr-ill-conditioned(not judged)")
        return
    try:
        r = CF(list(xs), list(ys)).correlation_coeff()
    except Exception as ex:
        mon.dev("corr.range", dict(case, raised=repr(ex)))
        return
    want = float(sxy) / math.sqrt(float(sxx) * float(syy))
    mon.cls("correlation", ("corr", tuple(xs[:8]), tuple(ys[:8])))
    mon.check("corr.range", isinstance(r, float) and -1.0 - 1e-12 <= r <=
              1.0 + 1e-12 and abs(r - want) <= 1e-7,
              dict(case, r=r, exact=want))
    if sxy * sxy == sxx * syy:
        mon.cls("collinear-data", ("corrc", tuple(xs[:8]), tuple(ys[:8])),
                [xs[:5], ys[:5]])
        mon.check("corr.collinear==+-1", abs(abs(r) - 1.0) <= 1e-9,
                  dict(case, r=r))
    try:
        r3 = CF([-x for x in xs], list(ys)).correlation_coeff()
        r4 = CF(list(xs), [-y for y in ys]).correlation_coeff()
    except Exception as ex:
        mon.dev("corr.sign-flip", dict(case, raised=repr(ex)))
        return
    # (negating a variable is exact in floating point, and so are the sums
    # of the negated data: the unchanged tree changes the sign bit for bit)
    mon.check("corr.sign-flip", abs(r3 + r) <= 1e-12 and abs(r4 + r) <= 1e-12,
              dict(case, r=r, x_negated=r3, y_negated=r4))
    # rescaling by powers of two is exact in floating point: r must not move
    # even when the sums of squares approach the ends of the double range
    mx_ = max(abs(v) for v in xs)
    my_ = max(abs(v) for v in ys)

    def p2(target, m):
        return 2.0 ** round(math.log2(target / m))
    for sx_, sy_ in ((1.0, p2(1e148, my_)), (p2(1e148, mx_), 1.0),
                     (1.0, p2(1e-148, my_)),
                     (p2(1e-78, mx_), p2(1e-78, my_)),
                     (p2(1e100, mx_), p2(1e-100, my_))):
        mon.evals += 1
        try:
            rp = CF([sx_ * x for x in xs],
                    [sy_ * y for y in ys]).correlation_coeff()
        except Exception as ex:
            rp = repr(ex)
        mon.check("corr.affine-invariant", isinstance(rp, float)
                  and abs(rp - r) <= 1e-12,
                  lambda: dict(case, r=r, rescaled=rp,
                               scale_x_y=[sx_, sy_]))
    X2 = [Fraction(al * x + be) for x in xs]
    Y2 = [Fraction(ga * y + de) for y in ys]
    cx2 = float((n * sum(v * v for v in X2) - sum(X2) ** 2)
                / max(n * sum(v * v for v in X2), Fraction(1, 10 ** 300)))
    cy2 = float((n * sum(v * v for v in Y2) - sum(Y2) ** 2)
                / max(n * sum(v * v for v in Y2), Fraction(1, 10 ** 300)))
    cmin = min(cx, cy, cx2, cy2)
    if cmin >= 1e-6:
        try:
            r2 = CF([al * x + be for x in xs],
                    [ga * y + de for y in ys]).correlation_coeff()
        except Exception as ex:
            mon.dev("corr.affine-invariant",
                    dict(case, scale=[al, be, ga, de], raised=repr(ex)))
            return
        mon.check("corr.affine-invariant", abs(r2 - r) <= 1e-9 + 4e-15 / cmin,
                  dict(case, r=r, rescaled=r2, scale=[al, be, ga, de]))


def key_corr_degenerate(ex):
    return None


CASES = {"fit": case_fit, "corr": case_corr}


def directed(mon):
    # Meeus' examples and small exact sets
    case_fit(mon, [0.0, 1.0, 2.0, 3.0], [1.0, 3.0, 5.0, 7.0], ["x", "1"], 1)
    case_fit(mon, [-2.0, -1.0, 0.0, 1.0, 2.0], [4.0, 1.0, 0.0, 1.0, 4.0],
             ["x2", "x", "1"], 2)
    case_fit(mon, [3.0, 3.0, 3.0, 3.0], [1.0, 2.0, 3.0, 4.0], ["x", "1"], 3)
    case_fit(mon, [1.0, 2.0, 1.0, 2.0], [1.0, 2.0, 3.0, 4.0],
             ["x2", "x", "1"], 4)
    case_fit(mon, [733.37] * 7, [1.0, 2.0, 3.0, 4.0, 5.0, 6.0, 7.0],
             ["x", "1"], 5)
    case_fit(mon, [0.1] * 5, [1.0, 2.0, 3.0, 4.0, 5.0], ["x2", "x", "1"], 6)
    case_fit(mon, [1.0, 2.0, 3.0], [2.0, 4.0, 6.0], ["x", "x"], 7) \
        if False else None
    case_corr(mon, [1.0, 2.0, 3.0, 4.0], [5.0, 5.0, 5.0, 5.0], 1, 0, 1, 0)
    case_corr(mon, [1.0, 2.0, 3.0, 4.0], [0.1, 0.1, 0.1, 0.1], 1, 0, 1, 0)
    case_corr(mon, [2.0, 2.0, 2.0], [1.0, 2.0, 3.0], 1, 0, 1, 0)
    case_corr(mon, [1.0, 2.0, 3.0, 4.0], [3.0, 5.0, 7.0, 9.0], 2.0, 1.0,
              0.5, -3.0)
    case_corr(mon, [1.0, 2.0, 3.0, 4.0], [9.0, 7.0, 5.0, 3.0], 2.0, 1.0,
              0.5, -3.0)


def run(mon, spec):
    rng = random.Random(spec["seed"] * 1000003 + spec["idx"])
    if spec["idx"] == 0:
        mon.begin("directed", [])
        directed(mon)
    for _ in range(spec["n"]):
        xs, ys, names, xkind, noise = gen_case(rng)
        r = rng.random()
        if r < 0.06:
            xs = [xs[0]] * len(xs)                  # all x equal
        elif r < 0.1 and len(names) == 3:
            xs = [xs[i % 2] for i in range(len(xs))]  # 2 distinct x, 3 params
        pseed = rng.randrange(1 << 30)
        mon.begin("fit", [xs, ys, names, pseed])
        case_fit(mon, xs, ys, names, pseed)
        if xkind == "symmetric":
            mon.cls("abscissae-symmetric-about-0", ("sym", pseed),
                    [xs[:6], names])
        # correlation
        r = rng.random()
        ys2 = list(ys)
        if r < 0.1:
            ys2 = [rng.choice((5.0, 0.1, -3.3, 1e3))] * len(xs)  # constant y
        elif r < 0.25:
            a = rng.choice((2.0, -0.5, 3.0, 1.0))
            b = rng.choice((0.0, 1.0, -4.0))
            xs_i = [float(rng.randrange(-50, 51)) for _ in xs]
            if len(set(xs_i)) > 1:
                xs, ys2 = xs_i, [a * x + b for x in xs_i]  # exactly collinear
        elif r < 0.4 and len(xs) >= 3:
            # nearly, not exactly, collinear: 1 - |r| between 1e-15 and 1e-8
            a = rng.choice((2.5, -0.5, 3.0, 1.0, -7.0))
            b = rng.choice((0.0, 3.0, -4.0))
            k = 10.0 ** rng.uniform(-7.5, -4)
            sp_ = (max(xs) - min(xs)) or 1.0
            ys2 = [a * x + b + abs(a) * sp_ * k * rng.gauss(0.0, 1.0)
                   for x in xs]
            mon.cls("nearly-collinear-data", ("ncol", pseed))
        al = rng.choice((1.0, 2.0, 0.5, 10.0 ** rng.uniform(-2, 2)))
        be = rng.choice((0.0, 1.0, -7.5, rng.uniform(-100, 100)))
        ga = rng.choice((1.0, 3.0, 0.25, 10.0 ** rng.uniform(-2, 2)))
        de = rng.choice((0.0, -2.0, rng.uniform(-100, 100)))
        mon.begin("corr", [xs, ys2, al, be, ga, de])
        case_corr(mon, xs, ys2, al, be, ga, de)
