"""C06 - precession is a rigid, invertible rotation, consistent across
routes."""
import math
import random

from vpm.oracles import sphere as sp
from vpm import tol

ID = "C06"
RULE = ("Seeded generation. Directions uniform on the sphere plus a polar "
        "set within 5 deg of either pole (down to 1e-6 deg from it); epoch "
        "pairs in both orders, with non-J2000 starts, zero and tiny "
        "intervals, within +-5 centuries of J2000 for the route / ecliptical "
        "/ elements clauses and +-20 centuries for the rotation clauses; "
        "proper motions up to 10 arcsec/yr; inclinations 0..180 deg incl. "
        "(0, 1) and > 90. Cases are built from two or three real calls "
        "(there/back, two stars, two routes) and judged on the sphere with "
        "the vector oracle. Non-trivial = |dec| > 85, backward interval, "
        "start epoch != J2000, zero interval, non-zero proper motion, i < 1 "
        "or i > 90; distinct by inputs.")
ASSUMPTIONS = [
    "every other precession call re-uses long-lived Epoch and Angle objects "
    "re-set in place with set(), the others use fresh objects",
    "mean obliquity for the route clause comes from the library's own "
    "mean_obliquity()",
    "proper-motion clause: the displacement of the result equals the "
    "displacement applied at the start (the function applies mu * dt before "
    "a rigid rotation), compared at 1e-9 deg, and doubles with mu",
    "orbital elements are compared as directions (orbit pole from i, Omega; "
    "perihelion from i, Omega, omega) at 1e-6 deg so that 1/sin i does not "
    "inflate the comparison",
]
EXHAUSTIVE = {"quick": False, "thorough": False}
J2000 = 2451545.0


def anchors():
    from pymeeus import Coordinates as C
    return {"precession_equatorial": C.precession_equatorial,
            "precession_ecliptical": C.precession_ecliptical,
            "precession_newcomb": C.precession_newcomb,
            "orbital_equinox2equinox": C.orbital_equinox2equinox}


POINTS = {
    "equatorial.polar": ("precession_equatorial", "sqrt(a * a + b * b)"),
    "equatorial.asin": ("precession_equatorial", "final_dec = asin(c)"),
    "newcomb.polar": ("precession_newcomb", "sqrt(a * a + b * b)"),
    "newcomb.asin": ("precession_newcomb", "final_dec = asin(c)"),
    "elements.general": ("orbital_equinox2equinox", "omegapsi = atan2(a, b)"),
}
REQUIRED_POINTS = list(POINTS)
REQUIRED_CLAUSES = ["identity.zero-interval", "there-and-back.equatorial",
                    "there-and-back.ecliptical", "isometry.equatorial",
                    "isometry.ecliptical", "routes-agree",
                    "proper-motion.linear", "newcomb~fk5",
                    "elements.there-and-back"]


def shards(tier, seed):
    mult = 20 if tier == "thorough" else 1
    return [{"name": "s%02d" % i, "idx": i, "n": 15000 * mult}
            for i in range(16)]


def jd_of_year(y):
    return J2000 + (y - 2000.0) * 365.25


def gen_dir(rng):
    r = rng.random()
    if r < 0.6:
        return rng.uniform(0, 360), math.degrees(math.asin(rng.uniform(-1,
                                                                       1)))
    s = rng.choice((-1, 1))
    pd = rng.choice((rng.uniform(0, 5), 10.0 ** rng.uniform(-6, 0.7), 5.0,
                     4.999, 0.5))
    return rng.uniform(0, 360), s * (90.0 - pd)


def gen_epochs(rng, span):
    """(start, final) JDE; span in centuries around J2000."""
    r = rng.random()
    y0 = rng.choice((2000.0, 2000.0, 1950.0, 1900.0,
                     2000.0 + rng.uniform(-span, span) * 100.0))
    if r < 0.1:
        y1 = y0
    elif r < 0.2:
        y1 = y0 + rng.choice((-1, 1)) * 10.0 ** rng.uniform(-6, 0)
    else:
        y1 = 2000.0 + rng.uniform(-span, span) * 100.0
    return jd_of_year(y0), jd_of_year(y1)


_POOL = {"n": 0}


def pe(start, final, lon, lat, pml=0.0, pmb=0.0, which="equ"):
    from pymeeus import Coordinates as C
    from pymeeus.Angle import Angle
    from pymeeus.Epoch import Epoch
    f = {"equ": C.precession_equatorial, "ecl": C.precession_ecliptical,
         "new": C.precession_newcomb}[which]
    # every other call re-uses long-lived Epoch / Angle objects that are
    # re-set in place; results must not depend on the objects' history
    _POOL["n"] += 1
    # one call in five: the longitude / right ascension in its other
    # legitimate representation, lon - 360 in (-360, 0) (only where the
    # subtraction is exact)
    if _POOL["n"] % 5 == 0 and 0.0 < lon < 360.0 \
            and (lon - 360.0) + 360.0 == lon:
        lon = lon - 360.0
    if _POOL["n"] % 2:
        if "s" not in _POOL:
            _POOL["s"], _POOL["f"] = Epoch(2451545.0), Epoch(2451545.0)
            _POOL["a"], _POOL["b"] = Angle(1.0), Angle(2.0)
        es, ef, a, b = _POOL["s"], _POOL["f"], _POOL["a"], _POOL["b"]
        es.set(start)
        ef.set(final)
        a.set(lon)
        b.set(lat)
    else:
        es, ef, a, b = Epoch(start), Epoch(final), tol.T(lon), tol.T(lat)
    # the proper motions as plain numbers or as Angles, some of which carry
    # a non-default comparison tolerance (vpm/tol.py)
    if (pml or pmb) and _POOL["n"] % 3 == 0:
        pml, pmb = tol.T(pml), tol.T(pmb)
    r = f(es, ef, a, b, pml, pmb)
    return r[0](), r[1]()


def cls_common(mon, ident, start, final, lat, pm=False):
    if abs(lat) > 85.0:
        mon.cls("|dec|>85", ident)
    if final < start:
        mon.cls("backward-interval", ident)
    if start != J2000:
        mon.cls("start!=J2000", ident)
    if final == start:
        mon.cls("zero-interval", ident)
    if pm:
        mon.cls("non-zero-proper-motion", ident)


def key_polar(lats, err, factor=1.0, which=None):
    """asin()-based declination near a pole: same conditioning mechanism as
    C05 (8 ulp / sin(polar distance)).  precession_equatorial has a dedicated
    acos() branch for declinations above +85, good to 3e-14 deg right up to
    the north pole (measured), so for it only the south cap is explained."""
    if which == "equ":
        # lats is a list of (starting declination, computed declination):
        # the computed one went through asin() unless the starting one was
        # above +85 degrees
        lats = [res for st, res in lats if res < 0.0 or st <= 85.0]
        if not lats:
            return None
    elif lats and isinstance(lats[0], tuple):
        lats = [v for pair in lats for v in pair]
    pd = min(90.0 - abs(v) for v in lats)
    if pd >= 0.01 or err is None:
        return None
    cap = 2.5e-6
    b = cap if pd <= 0 else min(cap, math.degrees(8 * 2.0 ** -53
                                                  / math.sin(math.radians(pd))))
    if err <= factor * b:
        return "pole.asin-conditioning"
    return None


def case_rotation(mon, which, start, final, lon1, lat1, lon2, lat2):
    """identity / there-and-back / isometry for one precession function."""
    mon.evals += 1
    name = {"equ": "equatorial", "ecl": "ecliptical"}[which]
    case = {"fn": which, "start": start, "final": final, "p1": [lon1, lat1],
            "p2": [lon2, lat2]}
    ident = ("rot", which, start, final, lon1, lat1)
    cls_common(mon, ident, start, final, lat1)
    try:
        a1, b1 = pe(start, final, lon1, lat1, which=which)
        a2, b2 = pe(start, final, lon2, lat2, which=which)
        r1, s1 = pe(final, start, a1, b1, which=which)
    except Exception as ex:
        mon.dev("there-and-back." + name, dict(case, raised=repr(ex)))
        return
    mon.check("ranges", -90.0 <= b1 <= 90.0 and -360.0 < a1 < 360.0,
              dict(case, result=[a1, b1]), key_range(which, lat1, b1))
    if start == final:
        err = sp.sep_ll(lon1, lat1, a1, b1)
        mon.check("identity.zero-interval", err <= 1e-9,
                  dict(case, result=[a1, b1], error_deg=err),
                  key_polar([(lat1, b1)], err, which=which))
    err = sp.sep_ll(lon1, lat1, r1, s1)
    tol = 1e-9 if which == "equ" else 1e-6
    mon.stat("there_and_back_%s_deg(|dec|<89.99)" % name,
             err if max(abs(lat1), abs(b1)) < 89.99 else 0.0, case)
    mon.check("there-and-back." + name, err <= tol,
              lambda: dict(case, there=[a1, b1], back=[r1, s1],
                           error_deg=err), key_polar([(lat1, b1), (b1, s1)], err, which=which))
    before = sp.sep_ll(lon1, lat1, lon2, lat2)
    after = sp.sep_ll(a1, b1, a2, b2)
    mon.stat("isometry_%s_deg(|dec|<89.99)" % name, abs(before - after)
             if max(abs(lat1), abs(b1), abs(lat2), abs(b2)) < 89.99 else 0.0,
             case)
    mon.check("isometry." + name, abs(before - after) <= 1e-9,
              lambda: dict(case, before=before, after=after),
              key_polar([(lat1, b1), (lat2, b2)], abs(before - after),
                        2.0, which=which))


def key_range(which, lat0, lat1):
    return None


def case_routes(mon, start, final, ra, dec):
    from pymeeus import Coordinates as C
    from pymeeus.Angle import Angle
    from pymeeus.Epoch import Epoch
    mon.evals += 1
    case = {"start": start, "final": final, "ra": ra, "dec": dec}
    cls_common(mon, ("route", start, final, ra, dec), start, final, dec)
    try:
        e0 = C.mean_obliquity(Epoch(start))
        e1 = C.mean_obliquity(Epoch(final))
        lo, la = C.equatorial2ecliptical(Angle(ra), Angle(dec), e0)
        l2, b2 = pe(start, final, lo(), la(), which="ecl")
        ra2, de2 = C.ecliptical2equatorial(Angle(l2), Angle(b2), e1)
        ra1, de1 = pe(start, final, ra, dec, which="equ")
    except Exception as ex:
        mon.dev("routes-agree", dict(case, raised=repr(ex)))
        return
    err = sp.sep_ll(ra1, de1, ra2(), de2())
    mon.stat("routes_disagreement_deg", err, case)
    mon.check("routes-agree", err <= 1e-4,
              dict(case, equatorial_route=[ra1, de1],
                   ecliptical_route=[ra2(), de2()], error_deg=err))


def case_pm(mon, which, start, final, lon, lat, pml, pmb):
    """Proper motions in degrees per year."""
    mon.evals += 1
    case = {"fn": which, "start": start, "final": final, "p": [lon, lat],
            "pm_deg_per_yr": [pml, pmb]}
    cls_common(mon, ("pm", which, start, final, lon, lat, pml, pmb), start,
               final, lat, True)
    try:
        a0, b0 = pe(start, final, lon, lat, which=which)
        a1, b1 = pe(start, final, lon, lat, pml, pmb, which=which)
        a2, b2 = pe(start, final, lon, lat, 2 * pml, 2 * pmb, which=which)
    except Exception as ex:
        mon.dev("proper-motion.linear", dict(case, raised=repr(ex)))
        return
    years = (final - start) / 365.25
    d_in = sp.sep_ll(lon, lat, lon + pml * years, lat + pmb * years)
    d_in2 = sp.sep_ll(lon, lat, lon + 2 * pml * years, lat + 2 * pmb * years)
    d1 = sp.sep_ll(a0, b0, a1, b1)
    d2 = sp.sep_ll(a0, b0, a2, b2)
    mon.stat("pm_displacement_err_deg", abs(d1 - d_in), case)
    mon.check("proper-motion.linear", abs(d1 - d_in) <= 1e-9
              and abs(d2 - d_in2) <= 1e-9,
              dict(case, displacement=d1, applied=d_in, doubled=d2,
                   applied_doubled=d_in2),
              key_polar([(lat, b0), (lat, b1), (lat, lat + pmb * years)],
                        max(abs(d1 - d_in), abs(d2 - d_in2)), 2.0,
                        which=which))


def case_newcomb(mon, start, final, ra, dec):
    mon.evals += 1
    case = {"start": start, "final": final, "ra": ra, "dec": dec}
    cls_common(mon, ("new", start, final, ra, dec), start, final, dec)
    try:
        a1, b1 = pe(start, final, ra, dec, which="new")
    except Exception as ex:
        mon.dev("newcomb~fk5", dict(case, raised=repr(ex)))
        return
    a0, b0 = pe(start, final, ra, dec, which="equ")
    err = sp.sep_ll(a0, b0, a1, b1)
    mon.stat("newcomb_vs_fk5_deg", err, case)
    mon.check("newcomb~fk5", err <= 0.005,
              dict(case, fk5=[a0, b0], newcomb=[a1, b1], error_deg=err))


def elem_dirs(i, arg, lon):
    """Orbit pole and perihelion direction (unit vectors) from elements in
    degrees, ecliptic frame."""
    pole = sp.rot_z(sp.rot_x((0.0, 0.0, 1.0), i), lon)
    peri = sp.rot_z(sp.rot_x(sp.rot_z((1.0, 0.0, 0.0), arg), i), lon)
    return pole, peri


def case_elements(mon, e0, e1, i0, arg0, lon0):
    from pymeeus import Coordinates as C
    from pymeeus.Angle import Angle
    from pymeeus.Epoch import Epoch
    mon.evals += 1
    case = {"epoch0": e0, "epoch": e1, "i": i0, "arg": arg0, "node": lon0}
    ident = ("el", e0, e1, i0, arg0, lon0)
    if i0 < 1.0:
        mon.cls("i<1", ident, case)
    elif i0 > 90.0:
        mon.cls("i>90", ident, case if i0 > 179 else None)
    else:
        mon.cls("elements", ident)
    try:
        i1, a1, l1 = C.orbital_equinox2equinox(Epoch(e0), Epoch(e1), Angle(i0),
                                               Angle(arg0), Angle(lon0))
        i2, a2, l2 = C.orbital_equinox2equinox(Epoch(e1), Epoch(e0), i1, a1,
                                               l1)
    except Exception as ex:
        mon.dev("elements.there-and-back", dict(case, raised=repr(ex)))
        return
    p0, q0 = elem_dirs(i0, arg0, lon0)
    p2, q2 = elem_dirs(i2(), a2(), l2())
    err = max(sp.sep(p0, p2), sp.sep(q0, q2))
    mon.stat("elements_there_and_back_deg(1<=i<=90)",
             err if 1.0 <= i0 <= 90.0 else 0.0, case)
    # the elements go through the node, which is conditioned like 1/sin(i):
    # within 1e-5 deg of i = 0 or 180 the rounding of one atan2 argument
    # (1 ulp of a quantity of order 1) turns the node by ulp/sin(i)
    smin = min(abs(math.sin(math.radians(v))) for v in (i1(), i2()))
    tol = 1e-6 + 8 * 1.27e-14 / max(smin, 1e-12) if smin > 0 else 1e-6
    mon.check("elements.there-and-back", err <= tol,
              dict(case, there=[i1(), a1(), l1()], back=[i2(), a2(), l2()],
                   error_deg=err), key_elements(i0, e0, e1))
    # the orbit's pole and perihelion direction are vectors of the sky: they
    # move as the library's own ecliptical precession moves any direction
    try:
        out = []
        for v in (p0, q0):
            lo, la = sp.lonlat(v)
            a, b = C.precession_ecliptical(Epoch(e0), Epoch(e1), Angle(lo),
                                           Angle(la))
            out.append(sp.vec(a(), b()))
    except Exception as ex:
        mon.dev("elements.move-with-precession", dict(case, raised=repr(ex)))
        return
    p1, q1 = elem_dirs(i1(), a1(), l1())
    err2 = max(sp.sep(p1, out[0]), sp.sep(q1, out[1]))
    mon.stat("elements_vs_precession_deg", err2, case)
    mon.check("elements.move-with-precession", err2 <= tol,
              dict(case, new_elements=[i1(), a1(), l1()], error_deg=err2),
              key_elements(i0, e0, e1))


def key_elements(i0, e0, e1):
    return None


CASES = {"rotation": case_rotation, "routes": case_routes, "pm": case_pm,
         "newcomb": case_newcomb, "elements": case_elements}


def directed(mon):
    p = ["equ", J2000, jd_of_year(2100.0), 30.0, 88.0, 40.0, 80.0]
    mon.begin("rotation", p)
    case_rotation(mon, *p)
    p = ["equ", J2000, jd_of_year(2100.0), 30.0, -88.0, 40.0, -80.0]
    mon.begin("rotation", p)
    case_rotation(mon, *p)
    p = [jd_of_year(1950.0), J2000, 41.054063, 49.227750]
    mon.begin("newcomb", p)
    case_newcomb(mon, *p)
    for i0 in (0.5, 1e-3, 120.0, 179.0, 47.122, 0.0, 180.0, 90.0):
        p = [jd_of_year(1744.0), J2000, i0, 151.4486, 45.7481]
        mon.begin("elements", p)
        case_elements(mon, *p)


def run(mon, spec):
    if not sp.self_check():
        raise RuntimeError("sphere self-check failed")
    rng = random.Random(spec["seed"] * 1000003 + spec["idx"])
    if spec["idx"] == 0:
        directed(mon)
    for _ in range(spec["n"]):
        r = rng.random()
        lon1, lat1 = gen_dir(rng)
        if r < 0.3:
            start, final = gen_epochs(rng, 20.0)
            lon2, lat2 = gen_dir(rng)
            if rng.random() < 0.12 and start != final:
                # a star that *ends* within 1e-10..1e-7 deg of the pole of
                # the final epoch: the starting direction is that pole
                # carried back to the starting epoch (an interior direction
                # of the starting frame), moved by a hair
                try:
                    pa, pb = pe(final, start, rng.uniform(0, 360),
                                rng.choice((90.0, -90.0)))
                    h = 10.0 ** rng.uniform(-10, -7)
                    ang = rng.uniform(0, 2 * math.pi)
                    lat1 = max(-90.0, min(90.0, pb + h * math.sin(ang)))
                    lon1 = (pa + h * math.cos(ang)
                            / max(math.cos(math.radians(pb)), 1e-3)) % 360.0
                    mon.cls("lands-on-the-pole-of-the-final-epoch",
                            ("fpole", start, final, lon1, lat1))
                except Exception:
                    pass
            r2 = rng.random()
            if r2 < 0.08:
                # a star on (or a hair from) the equator of the starting
                # epoch: the way back of "there and back" ends there, and so
                # does a zero interval
                lat1 = rng.choice((0.0, 0.0, 1e-9, -1e-9, 1e-5, -3e-4))
            elif r2 < 0.16 and start != final:
                # a star that ends on the equator of the final epoch
                try:
                    pa, pb = pe(final, start, rng.uniform(0, 360),
                                rng.choice((0.0, 1e-9, -1e-6, 2e-4)))
                    lon1, lat1 = pa % 360.0, pb
                    mon.cls("lands-on-the-equator-of-the-final-epoch",
                            ("feq", start, final, lon1, lat1))
                except Exception:
                    pass
            if rng.random() < 0.4:
                lon2 = lon1 + rng.uniform(-3, 3)
                lat2 = max(-90.0, min(90.0, lat1 + rng.uniform(-3, 3)))
            p = ["rotation", ["equ", start, final, lon1, lat1, lon2, lat2]]
        elif r < 0.5:
            start, final = gen_epochs(rng, 5.0)
            lon2, lat2 = gen_dir(rng)
            p = ["rotation", ["ecl", start, final, lon1, lat1, lon2, lat2]]
        elif r < 0.65:
            start, final = gen_epochs(rng, 5.0)
            p = ["routes", [start, final, lon1, lat1]]
        elif r < 0.8:
            start, final = gen_epochs(rng, 5.0)
            pml = rng.uniform(-10, 10) / 3600.0
            pmb = rng.uniform(-10, 10) / 3600.0
            if rng.random() < 0.15:
                # tiny proper motions: the displacement over centuries is
                # still far above the 1e-9 degree the clause allows
                pml = rng.choice((-1, 1)) * 10.0 ** rng.uniform(-11, -8)
                pmb = rng.choice((-1, 1, 0)) * 10.0 ** rng.uniform(-11, -8)
            p = ["pm", [rng.choice(("equ", "ecl")), start, final, lon1,
                        max(-89.0, min(89.0, lat1)), pml, pmb]]
        elif r < 0.9:
            y0 = rng.uniform(1800, 2100)
            y1 = rng.uniform(1800, 2100)
            p = ["newcomb", [jd_of_year(y0), jd_of_year(y1), lon1, lat1]]
        else:
            e0, e1 = gen_epochs(rng, 5.0)
            i0 = rng.choice((rng.uniform(0, 180), rng.uniform(0, 1),
                             rng.uniform(1, 90), rng.uniform(90, 180),
                             rng.uniform(1, 30),
                             rng.choice((0.0, 90.0, 180.0))
                             + rng.choice((0.0, 0.0, 1e-12, 1e-9, 1e-6))
                             * rng.choice((-1, 1))))
            i0 = min(180.0, max(0.0, i0))
            if i0 == 0.0 and rng.random() < 0.5:
                i0 = -0.0          # the same inclination, the other zero
            if rng.random() < 0.08:
                e1 = e0            # same equinox: the identity
            p = ["elements", [e0, e1, i0, rng.uniform(0, 360),
                              rng.uniform(0, 360)]]
        mon.begin(p[0], p[1])
        CASES[p[0]](mon, *p[1])
