"""C03 - Angle: canonical range, congruence mod 360 and closed arithmetic."""
import math
import operator
import random
from fractions import Fraction

from vpm import attach
from vpm.oracles import exact as ex

ID = "C03"
RULE = ("Seeded generation. Constructions: decimal degrees (ints up to 1e15, "
        "floats by scale 1e-300..1e15, denormals, +-0.0, exact multiples of "
        "360 and their +-1/2 ulp neighbours, +-ulp around 0 and +-360, tiny "
        "negatives), radians, hours (ra=True), and sexagesimal forms with 2, 3 "
        "or 4 pieces given separately, as tuple or as list, with fractional "
        "and overflowing minutes/seconds and the minus sign on any piece; "
        "oracle = exact rational value reduced mod 360. Operations: 21 "
        "operator forms (unary, binary, reflected, in-place, round) x operand "
        "types {Angle, int, float}; oracle = exact rational (Decimal for "
        "non-integer powers) result on the operands' stored floats. icontract "
        "class invariant -360 < value < 360 active on every public Angle "
        "method, also during a workload of real library calls (Coordinates, "
        "Sun, Moon), along random sequences of views and mutators on one "
        "object (each view compared with a fresh object of the same value) "
        "and while the repository's own 250 tests run (pytest "
        "plugin). Non-trivial = |value| >= 360 before reduction, within 2 "
        "ulp of a multiple of 360 or of 0, negative piece not first, "
        "overflowing minutes/seconds, reflected or in-place operator, zero "
        "divisor; distinct by (form, inputs).")
ASSUMPTIONS = [
    "tolerance 1e-9 * max(1, |exact value|) degrees = the property's '1e-9 "
    "degree, scaled with magnitude'",
    "divisors with 0 < |b| < 1e-9 are not generated (the documented 1e-10 "
    "comparison tolerance makes the library treat them as zero)",
    "for `number % Angle` with |number| >= 360 the remainder of either the "
    "number or of the number reduced mod 360 is accepted (the library turns "
    "the number into an Angle first)",
    "power results are only judged where the real power exists and is <= "
    "1e15 in magnitude",
]
EXHAUSTIVE = {"quick": False, "thorough": False}


def anchors():
    from pymeeus.Angle import Angle
    return {"Angle.reduce_deg": Angle.reduce_deg,
            "Angle.reduce_dms": Angle.reduce_dms, "Angle.set": Angle.set,
            "Angle.set_ra": Angle.set_ra,
            "Angle.to_positive": Angle.to_positive,
            "Angle.__mod__": Angle.__mod__, "Angle.__rmod__": Angle.__rmod__,
            "Angle.__div__": Angle.__div__, "Angle.__rdiv__": Angle.__rdiv__,
            "Angle.__idiv__": Angle.__idiv__}


POINTS = {
    "reduce_deg.big": ("Angle.reduce_deg", "deg = int(abs(deg)) % 360"),
    "reduce_dms.deg-frac": ("Angle.reduce_dms",
                            "minutes += (degrees % 1) * 60.0"),
    "reduce_dms.min-frac": ("Angle.reduce_dms",
                            "seconds += (minutes % 1) * 60.0"),
    "reduce_dms.sec-overflow": ("Angle.reduce_dms",
                                "minutes += int(seconds / 60.0)"),
    "reduce_dms.min-overflow": ("Angle.reduce_dms",
                                "degrees += int(minutes / 60.0)"),
    "set.copy": ("Angle.set", "self._tol = deg._tol"),
    "set.radians": ("Angle.set", "deg = degrees(deg)"),
    "set.list1": ("Angle.set", "self._deg = Angle.reduce_deg(deg[0])"),
    "set.list2": ("Angle.set", "Angle.dms2deg(deg[0], deg[1])\n"),
    "set.list3": ("Angle.set", "Angle.dms2deg(deg[0], deg[1], deg[2])"),
    "set.list4": ("Angle.set", "deg0 = sign * abs(deg[0])"),
    "set.args2": ("Angle.set", "Angle.dms2deg(args[0], args[1])\n"),
    "set.args3": ("Angle.set", "Angle.dms2deg(args[0], args[1], args[2])"),
    "set.args4": ("Angle.set", "args0 = sign * abs(args[0])"),
    "to_positive.negative": ("Angle.to_positive", "360.0 - abs(self._deg)"),
}
REQUIRED_POINTS = list(POINTS)
REQUIRED_CLAUSES = ["construct.range", "construct.sign", "construct.congruent",
                    "op.range", "op.congruent", "op.operands-unchanged",
                    "op.zero-division", "mod.remainder", "to_positive",
                    "rad==deg*pi/180", "get_ra==deg/15",
                    "invariant.Angle-range", "history.views==fresh-object",
                    "history.value==model"]
REQUIRED_CONTRACTS = ["invariant:Angle(-360<deg<360)",
                      "suite:invariant:Angle(-360<deg<360)"]


def shards(tier, seed):
    mult = 20 if tier == "thorough" else 1
    out = [{"name": "s%02d" % i, "idx": i, "n_con": 18000 * mult,
            "n_op": 18000 * mult, "n_lib": 300 * mult} for i in range(16)]
    out.append({"name": "suite", "idx": -1})
    return out


# ------------------------------------------------------------------ generators
def ulps(x, n):
    for _ in range(abs(n)):
        x = math.nextafter(x, math.inf if n > 0 else -math.inf)
    return x


def gen_number(rng, maxmag=1e15):
    """A finite int or float up to maxmag in magnitude, boundary seeking."""
    r = rng.random()
    sign = rng.choice((-1, 1))
    if r < 0.12:
        k = rng.randrange(0, int(min(maxmag, 1e15) // 360))
        if rng.random() < 0.5:
            k = rng.randrange(0, 12)
        return sign * 360 * k if rng.random() < 0.5 else float(sign * 360 * k)
    if r < 0.27:
        k = rng.randrange(0, 12) if rng.random() < 0.7 else \
            rng.randrange(0, 10 ** rng.randrange(1, 12))
        return ulps(float(sign * 360 * k), rng.choice((-2, -1, 1, 2)))
    if r < 0.35:
        return rng.choice((0.0, -0.0, 5e-324, -5e-324, 1e-310, -1e-310,
                           2.2250738585072014e-308, 1e-17, -1e-17, -3e-14,
                           -1e-15, 1e-15, -1e-12))
    if r < 0.45:
        return sign * rng.randrange(0, int(maxmag))
    if r < 0.55:
        return sign * rng.randrange(0, 1000)
    if r < 0.8:
        return sign * 10.0 ** rng.uniform(-300 if rng.random() < 0.2 else -6,
                                          math.log10(maxmag))
    return sign * rng.uniform(0.0, 720.0)


def gen_piece(rng, kind):
    """Degrees / minutes / seconds piece, non-negative."""
    r = rng.random()
    if kind == "d":
        if r < 0.5:
            return rng.randrange(0, 360)
        if r < 0.7:
            return rng.randrange(0, 100000)
        if r < 0.85:
            return rng.uniform(0, 720.0)
        return float(rng.randrange(0, 400))
    if r < 0.4:
        return rng.randrange(0, 60)
    if r < 0.6:
        return rng.uniform(0.0, 60.0)
    if r < 0.75:
        return rng.uniform(60.0, 5000.0)       # overflowing
    if r < 0.85:
        return rng.randrange(60, 100000)
    return rng.choice((0, 0.0, 59.999999999999, 60, 60.0, 59, 3600, 3599.9999))


def gen_dms(rng):
    n = rng.choice((2, 3, 3, 3, 4))
    pieces = [gen_piece(rng, "d"), gen_piece(rng, "m")]
    if n >= 3:
        pieces.append(gen_piece(rng, "s"))
    if n == 4:
        pieces.append(rng.choice((1, 1.0, 0, 5)))
    negpos = None
    if rng.random() < 0.5:
        negpos = rng.randrange(0, n)
        p = pieces[negpos]
        if p == 0:
            # -0 carries no sign for ints; use a float zero piece sparingly
            pieces[negpos] = -1.0 if negpos == 3 else p
            if negpos != 3:
                negpos = None
        else:
            pieces[negpos] = -p
    return pieces, negpos


# --------------------------------------------------------------- construction
def expect_construct(mon, label, inputs, angle_fn, exact_value, in_sign):
    """Run angle_fn(), compare with the exact rational value."""
    mon.evals += 1
    try:
        a = angle_fn()
        v = a()
    except Exception as e:
        mon.dev("construct.accepts", {"form": label, "input": inputs,
                                      "raised": repr(e)})
        return None
    ok_range = isinstance(v, float) and -360.0 < v < 360.0
    mon.check("construct.range", ok_range,
              {"form": label, "input": inputs, "value": repr(v)},
              key_construct(label, inputs, v))
    if not isinstance(v, float) or v != v:
        return a
    sv = ex.sgn(v)
    mon.check("construct.sign", sv == 0 or in_sign == 0 or sv == in_sign,
              {"form": label, "input": inputs, "value": v,
               "input_sign": in_sign})
    err = ex.cong_err(v, exact_value)
    tol = 1e-9 * max(1.0, abs(float(exact_value)))
    mon.stat("construct_congruence_err/tol", err / tol, [label, inputs])
    mon.check("construct.congruent", err <= tol,
              {"form": label, "input": inputs, "value": v,
               "exact_mod_360": float(ex.red360(exact_value)),
               "error_deg": err},
              key_construct(label, inputs, v))
    return a


def key_construct(label, inputs, v):
    return None


_FALSE_KW = ({"ra": False}, {"radians": False},
             {"ra": False, "radians": False}, {"ra": 0}, {"radians": 0})
_N = {"kw": 0}


def case_decimal(mon, x):
    from pymeeus.Angle import Angle
    X = ex.fr(x)
    ident = ("dec", x)
    if abs(x) >= 360:
        mon.cls("needs-reduction", ident, x if abs(x) < 1e4 else None)
    m = abs(X) % 360
    if x != 0 and (m == 0 or min(m, 360 - m) <= abs(X) * Fraction(1, 2 ** 50)):
        mon.cls("at-or-within-ulps-of-multiple-of-360", ident, x)
    if 0 < abs(x) < 1e-12:
        mon.cls("tiny", ident, x)
    a = expect_construct(mon, "Angle(x)", x, lambda: Angle(x), X, ex.sgn(x))
    expect_construct(mon, "Angle((x,))", x, lambda: Angle((x,)), X, ex.sgn(x))
    b = Angle(77.0)
    expect_construct(mon, "set(x)", x, lambda: (b.set(x), b)[1], X, ex.sgn(x))
    # the keywords spelled out with their default (false) values
    kw = _FALSE_KW[_N["kw"] % len(_FALSE_KW)]
    _N["kw"] += 1
    expect_construct(mon, "Angle(x, **%r)" % (kw,), x,
                     lambda: Angle(x, **kw), X, ex.sgn(x))
    c = Angle(-33.0)
    expect_construct(mon, "set(x, **%r)" % (kw,), x,
                     lambda: (c.set(x, **kw), c)[1], X, ex.sgn(x))
    if a is not None:
        expect_construct(mon, "Angle(Angle(x))", x, lambda: Angle(a),
                         ex.fr(a()), ex.sgn(a()))
        views(mon, a)


def case_radians(mon, x):
    from pymeeus.Angle import Angle
    if abs(x) > 1e13:
        return
    X = ex.fr(x) * 180 / ex.PI
    mon.cls("radians", ("rad", x), x if abs(x) < 100 else None)
    expect_construct(mon, "Angle(x, radians=True)", x,
                     lambda: Angle(x, radians=True), X, ex.sgn(x))
    b = Angle(12.0)
    expect_construct(mon, "set_radians(x)", x,
                     lambda: (b.set_radians(x), b)[1], X, ex.sgn(x))
    lst = [x]
    expect_construct(mon, "Angle([x], radians=True)", x,
                     lambda: Angle(lst, radians=True), X, ex.sgn(x))
    expect_construct(mon, "Angle(x, radians=True, ra=False)", x,
                     lambda: Angle(x, radians=True, ra=False), X, ex.sgn(x))


def case_ra(mon, x):
    from pymeeus.Angle import Angle
    X = ex.fr(x) * 15
    mon.cls("ra-hours", ("ra", x), x if abs(x) < 1000 else None)
    if abs(x) >= 24:
        mon.cls("ra-hours>=24", ("ra", x), x if abs(x) < 1000 else None)
    expect_construct(mon, "Angle(x, ra=True)", x, lambda: Angle(x, ra=True),
                     X, ex.sgn(x))
    b = Angle(12.0)
    expect_construct(mon, "set_ra(x)", x, lambda: (b.set_ra(x), b)[1], X,
                     ex.sgn(x))
    expect_construct(mon, "Angle(x, ra=True, radians=False)", x,
                     lambda: Angle(x, ra=True, radians=False), X, ex.sgn(x))


def dms_exact(pieces):
    mag = abs(ex.fr(pieces[0])) + abs(ex.fr(pieces[1])) / 60
    if len(pieces) >= 3:
        mag += abs(ex.fr(pieces[2])) / 3600
    neg = any(p < 0 for p in pieces[:4])
    return -mag if neg else mag, (-1 if neg else (1 if mag != 0 else 0))


def case_dms(mon, pieces, ra=False):
    from pymeeus.Angle import Angle
    X, sg = dms_exact(pieces)
    if X == 0:
        sg = 0
    if ra:
        X = X * 15
    ident = ("dms", tuple(pieces), ra)
    negpos = [i for i, p in enumerate(pieces) if p < 0]
    if negpos and negpos[0] > 0:
        mon.cls("negative-piece-not-first", ident, pieces)
    if any(p >= 60 for p in map(abs, pieces[1:3])):
        mon.cls("overflowing-minutes-or-seconds", ident, pieces)
    if any(isinstance(p, float) and p % 1 for p in pieces[:2]):
        mon.cls("fractional-degrees-or-minutes", ident, pieces)
    mon.cls("dms-%d-pieces%s" % (len(pieces), "-ra" if ra else ""), ident)
    kw = {"ra": True} if ra else {}
    expect_construct(mon, "Angle(d, m, s..)" + str(kw), pieces,
                     lambda: Angle(*pieces, **kw), X, sg)
    expect_construct(mon, "Angle((d, m, s..))" + str(kw), pieces,
                     lambda: Angle(tuple(pieces), **kw), X, sg)
    expect_construct(mon, "Angle([d, m, s..])" + str(kw), pieces,
                     lambda: Angle(list(pieces), **kw), X, sg)
    b = Angle(3.0)
    if ra:
        expect_construct(mon, "set_ra(d, m, s..)", pieces,
                         lambda: (b.set_ra(*pieces), b)[1], X, sg)
    else:
        expect_construct(mon, "set(d, m, s..)", pieces,
                         lambda: (b.set(*pieces), b)[1], X, sg)
        if len(pieces) == 3:
            mon.evals += 1
            try:
                v = Angle.dms2deg(*pieces)
                err = ex.cong_err(v, X)
                mon.check("construct.congruent",
                          err <= 1e-9 * max(1.0, abs(float(X)))
                          and -360.0 < v < 360.0,
                          {"form": "dms2deg", "input": pieces, "value": v})
            except Exception as e:
                mon.dev("construct.accepts", {"form": "dms2deg",
                                              "input": pieces,
                                              "raised": repr(e)})


def views(mon, a):
    """to_positive / rad / get_ra on a copy of Angle a."""
    from pymeeus.Angle import Angle
    v = a()
    mon.evals += 1
    try:
        c = Angle(a)
        p = c.to_positive()
        pv = p()
        same = p is c
    except Exception as e:
        mon.dev("to_positive", {"value": v, "raised": repr(e)})
        return
    if -1e-9 < v < 0:
        mon.cls("to_positive-of-tiny-negative", ("pos", v), v)
    err = ex.cong_err(pv, ex.fr(v))
    mon.check("to_positive", isinstance(pv, float) and 0.0 <= pv < 360.0
              and err <= 1e-9 and same,
              {"value": v, "to_positive": repr(pv), "error_deg": err},
              key_to_positive(v, pv))
    r = a.rad()
    want = float(ex.fr(v) * ex.PI / 180)
    mon.check("rad==deg*pi/180", abs(r - want) <= 4e-16 * max(abs(want), 1e-300)
              + 5e-324, {"value": v, "rad": r, "expected": want})
    h = a.get_ra()
    wanth = float(ex.fr(v) / 15)
    mon.check("get_ra==deg/15", abs(h - wanth) <= 4e-16 * abs(wanth) + 5e-324,
              {"value": v, "get_ra": h, "expected": wanth})
    mon.check("float()==call()", float(a) == v and a() == v,
              {"value": v, "float": float(a)})


def key_to_positive(v, pv):
    return None


# ------------------------------------------------------------------ operators
BIN = {"+": operator.add, "-": operator.sub, "*": operator.mul,
       "/": operator.truediv, "%": operator.mod, "**": operator.pow}
INP = {"+=": operator.iadd, "-=": operator.isub, "*=": operator.imul,
       "/=": operator.itruediv, "%=": operator.imod, "**=": operator.ipow}


def exact_op(op, a, b):
    """Exact real result of a op b on floats/ints a, b (None: not judged)."""
    A, B = ex.fr(a), ex.fr(b)
    if op == "+":
        return A + B
    if op == "-":
        return A - B
    if op == "*":
        return A * B
    if op == "/":
        return A / B
    if op == "**":
        return ex.real_pow(a, b)
    raise KeyError(op)


def gen_operand_value(rng):
    r = rng.random()
    if r < 0.6:
        return rng.uniform(-360.0, 360.0)
    if r < 0.7:
        return float(rng.randrange(-359, 360))
    if r < 0.8:
        return rng.choice((0.0, 359.99999999999994, -359.99999999999994,
                           180.0, -180.0, 1e-12, -1e-12, 90.0, 1.0, -1.0))
    return rng.choice((-1, 1)) * 10.0 ** rng.uniform(-8, 2.5)


def gen_right(rng, op):
    """Right operand: ('angle'|'int'|'float', value)."""
    t = rng.choice(("angle", "int", "float"))
    if op in ("**", "**=", "r**"):
        if t == "int":
            return t, rng.randrange(-3, 7)
        v = rng.choice((0.5, 2.0, 1.5, -1.0, 2.2, 3.0, 0.0, 1.0,
                        rng.uniform(-2, 4)))
        return t, v
    if t == "int":
        v = rng.randrange(-1000, 1001) if rng.random() < 0.8 else \
            rng.randrange(-10 ** 9, 10 ** 9)
        return t, v
    if t == "float":
        r = rng.random()
        if r < 0.5:
            return t, rng.uniform(-720, 720)
        if r < 0.8:
            return t, rng.choice((-1, 1)) * 10.0 ** rng.uniform(-8, 9)
        return t, rng.choice((360.0, -360.0, 720.0, 0.5, 1e-9, -1e-9, 15.0))
    return t, gen_operand_value(rng)


def too_small_divisor(v):
    return 0 < abs(v) < 1e-9


def case_op(mon, kind, op, av, bt, bv):
    """kind: 'bin' (a op b), 'ref' (b op a with b a number), 'inp' (a op= b),
    'una' (neg/abs/round)."""
    from pymeeus.Angle import Angle
    mon.evals += 1
    a = Angle(av)
    a0 = (a._deg, a._tol)
    ident = (kind, op, av, bt, bv)
    if kind == "una":
        try:
            if op == "neg":
                r, R = -a, -ex.fr(a._deg)
            elif op == "abs":
                r, R = abs(a), abs(ex.fr(a._deg))
            else:
                r = round(a, bv)
                R = ex.fr(round(a._deg, bv))
        except Exception as e:
            mon.dev("op.accepts", {"op": op, "a": av, "n": bv,
                                   "raised": repr(e)})
            return
        judge(mon, ident, r, R, a, a0, None, None)
        return
    b = Angle(bv) if bt == "angle" else bv
    b0 = (b._deg, b._tol) if bt == "angle" else None
    bval = b._deg if bt == "angle" else bv
    if kind != "bin":
        mon.cls({"ref": "reflected-operator", "inp": "in-place-operator"}
                [kind], ident, [op, av, bt, bv])
    sym = op.rstrip("=") if kind == "inp" else op
    # left/right values of the real operation
    lv, rv = (bval, a._deg) if kind == "ref" else (a._deg, bval)
    zero_div = sym in ("/", "%") and rv == 0
    if sym == "**" and lv == 0 and rv < 0:
        zero_div = True
    if sym in ("/", "%") and too_small_divisor(rv):
        # a tiny divisor is judged when the quotient is an ordinary number
        # all the same (a tiny dividend): denormals are in the domain
        # (an Angle divisor below its tolerance is a zero divisor by
        # documentation: only plain-number divisors are judged here)
        if sym == "%" or lv == 0 or abs(ex.fr(lv) / ex.fr(rv)) > 1e15 \
                or bt == "angle" or kind == "ref":
            return
        mon.cls("tiny-dividend-over-tiny-divisor", ident, [kind, op, av, bv])
    alias = a
    try:
        if kind == "bin":
            r = BIN[op](a, b)
        elif kind == "ref":
            r = BIN[op](b, a)
        else:
            x = a
            x = INP[op](x, b)
            r = x
    except ZeroDivisionError:
        mon.check("op.zero-division", zero_div,
                  {"kind": kind, "op": op, "a": av, "b": [bt, bv],
                   "raised": "ZeroDivisionError on a non-zero divisor"})
        if zero_div:
            mon.cls("zero-divisor", ident, [kind, op, av, bt, bv])
        return
    except Exception as e:
        if zero_div:
            mon.dev("op.zero-division", {"kind": kind, "op": op, "a": av,
                                         "b": [bt, bv], "raised": repr(e)})
            return
        if sym == "**":
            R = ex.real_pow(lv, rv)
            if R is None or abs(R) > 1e15:
                mon.refusal("pow-without-real-result:" + type(e).__name__)
                return
        mon.dev("op.accepts", {"kind": kind, "op": op, "a": av,
                               "b": [bt, bv], "raised": repr(e)})
        return
    if zero_div:
        mon.dev("op.zero-division", {"kind": kind, "op": op, "a": av,
                                     "b": [bt, bv],
                                     "returned": repr(r)})
        return
    if sym == "%":
        judge_mod(mon, ident, r, lv, rv, alias, a0, b, b0)
        return
    R = exact_op(sym, lv, rv)
    if R is None or abs(R) > 1e15:
        return
    judge(mon, ident, r, R, alias, a0, b, b0)


def judge(mon, ident, r, R, a, a0, b, b0):
    from pymeeus.Angle import Angle
    if not isinstance(r, Angle):
        mon.dev("op.range", {"case": ident, "returned": repr(r)})
        return
    v = r()
    mon.check("op.range", isinstance(v, float) and -360.0 < v < 360.0,
              {"case": ident, "result": repr(v)})
    if isinstance(v, float) and v == v and abs(v) != math.inf:
        err = ex.cong_err(v, R)
        tol = 1e-9 * max(1.0, abs(float(R)))
        mon.check("op.congruent", err <= tol,
                  {"case": ident, "result": v,
                   "exact_mod_360": float(ex.red360(R)), "error_deg": err})
    unchanged(mon, ident, a, a0, b, b0)


def judge_mod(mon, ident, r, lv, rv, a, a0, b, b0):
    """Remainder, semantics-free: |r| < |b| and (a - r) is an integer
    multiple of b (within rounding)."""
    from pymeeus.Angle import Angle
    if not isinstance(r, Angle):
        mon.dev("op.range", {"case": ident, "returned": repr(r)})
        return
    v = r()
    mon.check("op.range", isinstance(v, float) and -360.0 < v < 360.0,
              {"case": ident, "result": repr(v)})
    A, B = ex.fr(lv), ex.fr(rv)
    tol = 1e-9 * max(1.0, abs(lv))
    # (1) semantics-free: |r| < |b| and (a - r) an integer multiple of b
    q = (A - ex.fr(v)) / B
    frac = abs(q - round(q))
    free = abs(v) < abs(rv) and float(frac) * abs(rv) <= tol
    # (2) or congruent mod 360 to the real remainder under one of the usual
    # conventions (the Angle result is itself reduced into (-360, 360), so
    # for |b| >= 360 only congruence can be asked for)
    sa = 1 if A >= 0 else -1
    cands = (A - B * math.floor(A / B),                 # floored (Python)
             A - B * math.trunc(A / B),                 # truncated (C fmod)
             sa * (abs(A) - B * math.floor(abs(A) / B)),  # |a| mod b, sign a
             sa * (abs(A) % abs(B)))
    if abs(A) >= 360:
        # a plain number on the left of `number % Angle` is first turned into
        # an Angle (reduced mod 360); both readings of "the operand's value"
        # are accepted
        A2 = ex.red360(A)
        s2 = 1 if A2 >= 0 else -1
        cands += (A2 - B * math.floor(A2 / B), A2 - B * math.trunc(A2 / B),
                  s2 * (abs(A2) - B * math.floor(abs(A2) / B)),
                  s2 * (abs(A2) % abs(B)))
    conv = any(ex.cong_err(v, c) <= max(tol, 1e-9 * abs(float(c)))
               for c in cands)
    mon.check("mod.remainder", free or conv,
              {"case": ident, "result": v, "a": lv, "b": rv,
               "(a-r)/b": float(q),
               "conventional_remainders": [float(c) for c in cands]})
    unchanged(mon, ident, a, a0, b, b0)


def unchanged(mon, ident, a, a0, b, b0):
    ok = (a._deg, a._tol) == a0 and (b0 is None or (b._deg, b._tol) == b0)
    mon.check("op.operands-unchanged", ok,
              {"case": ident, "left_before": a0,
               "left_after": [a._deg, a._tol],
               "right_before": b0,
               "right_after": None if b0 is None else [b._deg, b._tol]})


# ------------------------------------------------------- library workload
def case_library(mon, seedval):
    """Real library calls with the class invariant watching every Angle the
    library builds."""
    from pymeeus.Angle import Angle
    from pymeeus.Epoch import Epoch
    from pymeeus import Coordinates as C
    from pymeeus.Sun import Sun
    from pymeeus.Moon import Moon
    rng = random.Random(seedval)
    e = Epoch(rng.uniform(1355807.5, 3182395.5))     # -1000 .. 4000
    lon = Angle(rng.choice((0.0, -1e-15, 359.99999999999994,
                            rng.uniform(-360, 360))))
    lat = Angle(rng.choice((0.0, -1e-15, 1e-15, rng.uniform(-90, 90))))
    eps = Angle(rng.uniform(22.0, 24.5))
    mon.evals += 1
    calls = [
        lambda: C.equatorial2ecliptical(lon, lat, eps),
        lambda: C.ecliptical2equatorial(lon, lat, eps),
        lambda: C.equatorial2galactic(lon, lat),
        lambda: C.galactic2equatorial(lon, lat),
        lambda: C.equatorial2horizontal(lon, lat, Angle(rng.uniform(-90, 90))),
        lambda: C.horizontal2equatorial(lon, lat, Angle(rng.uniform(-90, 90))),
        lambda: C.mean_obliquity(e), lambda: C.true_obliquity(e),
        lambda: C.nutation_longitude(e),
        lambda: Sun.apparent_geocentric_position(e),
        lambda: Sun.geometric_geocentric_position(e),
        lambda: Moon.apparent_ecliptical_pos(e),
        lambda: Moon.apparent_equatorial_pos(e),
        lambda: Moon.longitude_mean_ascending_node(e),
        lambda: Moon.longitude_true_ascending_node(e),
        lambda: Moon.longitude_mean_perigee(e),
    ]
    for f in calls:
        try:
            f()
        except Exception as ex_:
            mon.refusal("library-call-raised:" + type(ex_).__name__)
    mon.cls("library-workload", ("lib", seedval))


def directed(mon):
    """Boundary witnesses that every run executes, whatever the seed."""
    for pieces in ([359, 59.999999999999], [359, 59, 59.99999999999],
                   [359, -59.999999999999], [-359, 59, 59.9999999999999],
                   [719, 59, 59.99999999999], [0, 21599, 59.99999999999],
                   [0, 0, 1295999.99999999999], [10, 75.5, 3700.25],
                   [0, -46.25, 0.0], [0, 0, -46.31], [23, 59, 59.9999999999],
                   [23, 59.99999999999999]):
        for ra in (False, True):
            mon.begin("dms", [pieces, ra])
            case_dms(mon, pieces, ra)
    for x in (-1e-17, -2.8e-14, -3e-14, -5e-324, 359.99999999999994,
              -359.99999999999994, 360.0, -360.0, 720, 1e15, -1e15,
              360.00000000000006, 0.0, -0.0):
        mon.begin("decimal", [x])
        case_decimal(mon, x)
    for x in (24, 25, -25.5, 23.999999999999996, 24.000000000000004, 48,
              -24.0, 1e6):
        mon.begin("ra", [x])
        case_ra(mon, x)


def all_views(a):
    return (a(), float(a), a.rad(), a.get_ra(), a.dms_tuple(), a.ra_tuple(),
            a.dms_str(), a.ra_str(False, 3), str(a), int(a))


def case_history(mon, seedval):
    """One Angle object through a random sequence of views and documented
    mutators: after every step each view must equal that of a fresh Angle
    holding the same value (no state other than the value and tolerance)."""
    from pymeeus.Angle import Angle
    rng = random.Random(seedval)
    a = Angle(rng.uniform(-359, 359))
    steps = []
    model = a()          # the value the object should hold (None: unknown)
    for _ in range(8):
        mon.evals += 1
        op = rng.choice(("views", "views", "to_positive", "set", "set_ra",
                         "set_radians", "set_dms", "iadd", "imul", "neg",
                         "set_tolerance", "set_tiny", "to_positive"))
        try:
            if op == "views":
                all_views(a)
            elif op == "to_positive":
                a.to_positive()
                if model is not None and model < 0.0:
                    model = model + 360.0
                    if model >= 360.0:
                        model = 0.0
            elif op == "set_tiny":
                # smaller in size than a tolerance the object may carry
                v = rng.choice((-1, 1)) * 10.0 ** rng.uniform(-12, -3)
                a.set(v)
                model = v
            elif op == "set":
                v = rng.uniform(-1000, 1000)
                a.set(v)
                model = math.fmod(v, 360.0)
            elif op == "set_ra":
                a.set_ra(rng.uniform(-30, 30))
            elif op == "set_radians":
                a.set_radians(rng.uniform(-7, 7))
            elif op == "set_dms":
                a.set(rng.randrange(0, 360), rng.uniform(-59, 59),
                      rng.uniform(0, 59))
            elif op == "iadd":
                a += rng.uniform(-400, 400)
            elif op == "imul":
                a *= rng.uniform(-3, 3)
            elif op == "neg":
                a = -a
            else:
                a.set_tolerance(rng.choice((1e-10, 1e-6, 1e-3, 0.0)))
            if op in ("set_ra", "set_radians", "set_dms", "iadd", "imul",
                      "neg"):
                model = None if op != "neg" or model is None else -model
            steps.append(op)
            got = all_views(a)
            fresh = Angle(a())
            want = all_views(fresh)
        except Exception as ex:
            mon.dev("history.views==fresh-object",
                    {"seed": seedval, "steps": steps + [op],
                     "raised": repr(ex)})
            return
        if model is not None:
            mon.check("history.value==model", abs(a() - model) <= 1e-12
                      * max(1.0, abs(model)),
                      lambda: {"seed": seedval, "steps": list(steps),
                               "value": a(), "expected": model})
        else:
            model = a()
        ok = got == want
        mon.check("history.views==fresh-object", ok,
                  lambda: {"seed": seedval, "steps": list(steps),
                           "value": a(), "views": repr(got)[:300],
                           "fresh_object": repr(want)[:300]})
        if not ok:
            return
    mon.cls("object-with-history", ("hist", seedval), steps)


CASES = {"history": case_history, "decimal": case_decimal, "radians": case_radians, "ra": case_ra,
         "dms": case_dms, "op": case_op, "library": case_library}


def replay(mon, kind, params):
    attach.angle_invariant(mon)
    CASES[kind](mon, *params)


def run(mon, spec):
    if spec["idx"] == -1:
        # the repository's own tests as one more workload under the Angle /
        # Epoch class invariants
        from vpm import suite
        mon.begin("suite", [])
        suite.run_suite(mon, "invariants")
        return
    attach.angle_invariant(mon)
    rng = random.Random(spec["seed"] * 1000003 + spec["idx"])
    for _ in range(spec["n_con"]):
        r = rng.random()
        if r < 0.45:
            x = gen_number(rng)
            mon.begin("decimal", [x])
            case_decimal(mon, x)
        elif r < 0.55:
            x = gen_number(rng, 1e6) if rng.random() < 0.8 else \
                rng.choice((math.pi, -math.pi, 2 * math.pi, math.pi / 2,
                            -2 * math.pi, 4 * math.pi, 1e-20))
            mon.begin("radians", [x])
            case_radians(mon, x)
        elif r < 0.65:
            x = gen_number(rng, 1e6) if rng.random() < 0.7 else \
                rng.choice((24, 24.0, 25, -25.5, 23.999999999999996, 48, 12,
                            -24, 1000, 36.5))
            mon.begin("ra", [x])
            case_ra(mon, x)
        else:
            pieces, _n = gen_dms(rng)
            ra = rng.random() < 0.25
            mon.begin("dms", [pieces, ra])
            case_dms(mon, pieces, ra)
    if spec["idx"] == 0:
        directed(mon)
    ops_bin = list(BIN)
    for _ in range(spec["n_op"]):
        av = gen_operand_value(rng)
        r = rng.random()
        if r < 0.12:
            op = rng.choice(("neg", "abs", "round"))
            p = ["una", op, av, "int", rng.randrange(0, 8)]
        elif r < 0.45:
            op = rng.choice(ops_bin)
            bt, bv = gen_right(rng, op)
            p = ["bin", op, av, bt, bv]
        elif r < 0.7:
            op = rng.choice(ops_bin)
            bt, bv = gen_right(rng, "r**" if op == "**" else op)
            if bt == "angle":
                bt = rng.choice(("int", "float"))
                bv = int(bv) if bt == "int" else float(bv)
            if op == "**":
                bv = abs(bv)       # number ** angle: keep the base positive
                if rng.random() < 0.3:
                    # a base of a turn or more under a small exponent
                    bv = rng.choice((400, 729.0, 1000, 1e4, 360.0, 361.5,
                                     rng.uniform(360.0, 5000.0)))
                    bt = "int" if isinstance(bv, int) else "float"
                    av = rng.choice((0.5, -1.0, 1.0 / 3.0, 2.0, 0.25, 1.5,
                                     -0.5, rng.uniform(-2.0, 3.0)))
            p = ["ref", op, av, bt, bv]
        else:
            op = rng.choice(list(INP))
            bt, bv = gen_right(rng, op)
            p = ["inp", op, av, bt, bv]
        # both operands tiny (down to the denormals): the quotient is an
        # ordinary number
        if p[1] in ("/", "/=") and p[0] in ("bin", "inp") \
                and rng.random() < 0.06:
            k = rng.choice((5e-324, 1e-320, 3e-310, 1e-317, 4e-309, 1e-300,
                            2.5e-200, 1e-30, 1e-12))
            p[3], p[4] = "float", k * rng.choice((1, -1, 3))
            p[2] = k * rng.choice((1, 2, 405, -7, 2024, 0.5, 100000))
        # zero divisors on purpose
        if p[1] in ("/", "%", "/=", "%=") and rng.random() < 0.08:
            if p[0] == "ref":
                p[2] = 0.0
            else:
                p[4] = 0 if p[3] == "int" else 0.0
        mon.begin("op", p)
        case_op(mon, *p)
    for i in range(spec["n_lib"] * 10):
        sv = rng.randrange(1 << 30)
        mon.begin("history", [sv])
        case_history(mon, sv)
    for i in range(spec["n_lib"]):
        sv = rng.randrange(1 << 30)
        mon.begin("library", [sv])
        case_library(mon, sv)
