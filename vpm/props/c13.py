"""C13 - planetary event finders return real events, in order, none skipped."""
import importlib
import math
import random

from vpm import history
from vpm import seams
from vpm.oracles import sphere as sp

ID = "C13"
RULE = ("For every finder of every planet and both variants (56 "
        "finder-variants): sweep histories - queries advancing by 1/20 of the "
        "synodic/orbital period across 6 periods in 3 eras (quick; thorough: "
        "12 periods in 7 eras) - recorded as event logs and checked offline "
        "(result never moves backwards, consecutive distinct results 0.75..1.3 "
        "periods apart, result within 1.05 periods of the query); every "
        "distinct result of a sweep and seeded random queries are judged by "
        "bracketing: the event function built from the library's own VSOP87 "
        "heliocentric positions changes sign (in the right direction) between "
        "t* - tol and t* + tol (tol = 1 d Mercury..Mars incl. Earth, 2 d "
        "beyond); out-of-range queries must raise ValueError. Non-trivial = "
        "query within 1/40 period of a switch between two results, era more "
        "than 1500 years from 2000, out-of-range query, 29 Feb of a Julian "
        "century year; distinct by (finder, query).")
ASSUMPTIONS = [
    "event functions use geometric positions without light-time (the "
    "property says 'according to the library's own VSOP87 positions'); "
    "light-time moves an event by at most 0.01 d (inner) / 0.2 d (outer), "
    "inside the tolerances",
    "reported greatest elongation compared with the maximum of the geometric "
    "elongation within +-tol at 0.05 deg (the property gives no number; "
    "0.017 deg is the largest difference seen on the unchanged tree)",
    "two results closer than max(event tolerance, 0.5 % of the period) count "
    "as the same event for the order and spacing clauses (node passages "
    "depend smoothly on the query through the mean elements)",
    "Earth's node passage is not judged for 'latitude zero' (its latitude "
    "from the ecliptic of date is a 1e-4 deg perturbation signal); order and "
    "spacing clauses still apply to it",
]
EXHAUSTIVE = {"quick": False, "thorough": False}
J2000 = 2451545.0
SYN = {"Mercury": 115.8775, "Venus": 583.9214, "Mars": 779.9361,
       "Jupiter": 398.8840, "Saturn": 378.0919, "Uranus": 369.6560,
       "Neptune": 367.4867}
ORB = {"Mercury": 87.969, "Venus": 224.701, "Earth": 365.2596,
       "Mars": 686.98, "Jupiter": 4332.59, "Saturn": 10759.2,
       "Uranus": 30688.5, "Neptune": 60182.0}
INNER = ("Mercury", "Venus", "Earth", "Mars")
FINDERS = []          # (planet, method, args, kind)
for _p in ("Mercury", "Venus"):
    FINDERS += [(_p, "inferior_conjunction", (), "infconj"),
                (_p, "superior_conjunction", (), "supconj"),
                (_p, "western_elongation", (), "west"),
                (_p, "eastern_elongation", (), "east"),
                (_p, "station_longitude_1", (), "st1"),
                (_p, "station_longitude_2", (), "st2")]
for _p in ("Mars", "Jupiter", "Saturn", "Uranus", "Neptune"):
    FINDERS += [(_p, "conjunction", (), "conj"),
                (_p, "opposition", (), "opp")]
for _p in ("Mars", "Jupiter", "Saturn"):
    FINDERS += [(_p, "station_longitude_1", (), "st1"),
                (_p, "station_longitude_2", (), "st2")]
for _p in ("Mercury", "Venus", "Earth", "Mars", "Jupiter", "Saturn",
           "Uranus"):
    FINDERS += [(_p, "perihelion_aphelion", (True,), "peri"),
                (_p, "perihelion_aphelion", (False,), "aph"),
                (_p, "passage_nodes", (True,), "asc"),
                (_p, "passage_nodes", (False,), "desc")]
RANGED = ("infconj", "supconj", "conj", "opp", "west", "east", "st1", "st2")


def anchors():
    from pymeeus.Venus import Venus
    from pymeeus.Jupiter import Jupiter
    return {"Venus.inferior_conjunction": Venus.inferior_conjunction,
            "Jupiter.perihelion_aphelion": Jupiter.perihelion_aphelion,
            "Jupiter.passage_nodes": Jupiter.passage_nodes}


POINTS = {
    "finder.range-raise": ("Venus.inferior_conjunction",
                           "raise ValueError(\"Epoch outside"),
    "perihelion.branch": ("Jupiter.perihelion_aphelion", "k = round(k)\n"),
    "aphelion.branch": ("Jupiter.perihelion_aphelion",
                        "k = round(k + 0.5) - 0.5"),
}
REQUIRED_POINTS = list(POINTS)
REQUIRED_CLAUSES = [history.CLAUSE, "event.occurs", "elongation.reported-angle",
                    "order.never-backwards", "spacing.one-period",
                    "result.within-one-period", "range.refused",
                    "finder.no-exception"]


def shards(tier, seed):
    out = []
    groups = {}
    for i, f in enumerate(FINDERS):
        groups.setdefault((f[0], f[3] in ("peri", "aph", "asc", "desc")),
                          []).append(i)
    for (planet, orb), idxs in sorted(groups.items()):
        out.append({"name": "%s-%s" % (planet, "orbit" if orb else "syn"),
                    "finders": idxs, "full": tier == "thorough"})
    # every perihelion and aphelion of the Earth, -1999..3998, both tiers;
    # of Mercury, Venus and Mars too in the thorough one
    for i, f in enumerate(FINDERS):
        if f[3] not in ("peri", "aph"):
            continue
        if f[0] == "Earth":
            cuts = (-1999, 1, 3999)
        elif tier == "thorough" and f[0] in ("Venus", "Mars"):
            cuts = (-1999, 1, 3999)
        elif tier == "thorough" and f[0] == "Mercury":
            cuts = (-1999, -500, 1000, 2500, 3999)
        else:
            continue
        for y0, y1 in zip(cuts, cuts[1:]):
            out.append({"name": "%s-all-%s-%d" % (f[0], f[3], y0),
                        "allyears": [i, y0, y1], "full": False})
    # the change-over between successive events of the synodic finders (a
    # call costs 20 microseconds): every one in the thorough tier, every
    # sixth one (which sixth depends on the seed) in the quick tier
    by_planet = {}
    for i, f in enumerate(FINDERS):
        if f[3] in RANGED:
            by_planet.setdefault(f[0], []).append(i)
    for planet, idxs in sorted(by_planet.items()):
        stride = 1 if tier == "thorough" else 6
        cuts = (-1999, 1, 3999) if planet != "Mercury" else \
            (-1999, -500, 1000, 2500, 3999)
        for y0, y1 in zip(cuts, cuts[1:]):
            out.append({"name": "%s-switch-%d" % (planet, y0),
                        "switches": [idxs, y0, y1, stride, seed % stride],
                        "full": False})
    # Jupiter (506 events of each kind in the domain) and Saturn (204): every
    # event judged in the thorough tier, every third one (which third
    # depends on the seed) in the quick tier; a Saturn call costs 0.2 s
    for i, f in enumerate(FINDERS):
        if f[3] not in ("peri", "aph") or f[0] not in ("Jupiter", "Saturn"):
            continue
        cuts = (-1999, -500, 1000, 2500, 3999) if f[0] == "Saturn" \
            else (-1999, 1000, 3999)
        stride = 1 if tier == "thorough" else 3
        for y0, y1 in zip(cuts, cuts[1:]):
            out.append({"name": "%s-all-%s-%d" % (f[0], f[3], y0),
                        "allyears": [i, y0, y1, stride, 1,
                                     seed % stride], "full": False})
    return out


def jd_of_year(y):
    return J2000 + (y - 2000.0) * 365.25


def wrapr(a):
    return (a + math.pi) % (2 * math.pi) - math.pi


_cls = {}


def cls_of(planet):
    if planet not in _cls:
        _cls[planet] = getattr(importlib.import_module("pymeeus." + planet),
                               planet)
    return _cls[planet]


def helio(planet, jd):
    # reference positions are taken at exactly jd (vpm/seams.py)
    L, B, R = cls_of(planet).geometric_heliocentric_position(
        seams.raw_epoch(jd), tofk5=False)
    return L.rad(), B.rad(), R


def xyz(l, b, r):
    return (r * math.cos(b) * math.cos(l), r * math.cos(b) * math.sin(l),
            r * math.sin(b))


def geo(planet, jd):
    """Geocentric longitude of the planet, of the Sun, elongation (rad) and
    the planet's distance relative to the Sun's."""
    p = xyz(*helio(planet, jd))
    e = xyz(*helio("Earth", jd))
    d = (p[0] - e[0], p[1] - e[1], p[2] - e[2])
    lam = math.atan2(d[1], d[0])
    sun = math.atan2(-e[1], -e[0])
    s = (-e[0], -e[1], -e[2])
    elong = math.radians(sp.sep(d, s))
    return lam, sun, elong, sp.norm(d) / sp.norm(e)


def event_function(planet, kind):
    """f(t) whose sign change marks the event, and the required direction
    (+1: negative -> positive, -1: positive -> negative, 0: any)."""
    if kind in ("infconj", "supconj", "conj"):
        return (lambda t: wrapr(geo(planet, t)[0] - geo(planet, t)[1])), 0
    if kind == "opp":
        return (lambda t: wrapr(geo(planet, t)[0] - geo(planet, t)[1]
                                - math.pi)), 0
    if kind in ("west", "east"):
        h = 0.02
        return (lambda t: geo(planet, t + h)[2] - geo(planet, t - h)[2]), -1
    if kind in ("st1", "st2"):
        h = 0.02
        return (lambda t: wrapr(geo(planet, t + h)[0]
                                - geo(planet, t - h)[0])), \
            (-1 if kind == "st1" else 1)
    if kind in ("peri", "aph"):
        h = 0.25
        return (lambda t: helio(planet, t + h)[2] - helio(planet, t - h)[2]), \
            (1 if kind == "peri" else -1)
    if kind in ("asc", "desc"):
        return (lambda t: helio(planet, t)[1]), (1 if kind == "asc" else -1)
    raise KeyError(kind)


def nearest_event_offset(f, direction, t0, span, n=48):
    """Offset (days) of the nearest sign change of f (in the required
    direction) to t0 within +-span, or None."""
    best = None
    pt = t0 - span
    pv = f(pt)
    for i in range(1, n + 1):
        t = t0 - span + 2 * span * i / n
        v = f(t)
        if (pv < 0) != (v < 0) and abs(pv - v) < 2.0:
            if direction == 0 or (direction > 0) == (v > pv):
                a, b, fa = pt, t, pv
                for _ in range(28):
                    m = (a + b) / 2
                    fm = f(m)
                    if (fa < 0) != (fm < 0):
                        b = m
                    else:
                        a, fa = m, fm
                off = (a + b) / 2 - t0
                if best is None or abs(off) < abs(best):
                    best = off
        pt, pv = t, v
    return best


def call_finder(fi, jd):
    from pymeeus.Epoch import Epoch
    planet, meth, args, kind = FINDERS[fi]
    out = getattr(cls_of(planet), meth)(Epoch(jd), *args)
    extra = None
    if isinstance(out, tuple):
        extra = out[1]
        out = out[0]
    return out.jde(), extra


# measured on the unchanged tree (60 random queries each): Jupiter nodes up
# to 18 d, Saturn nodes 71 d, Uranus perihelion/aphelion 8 d, Uranus nodes
# beyond 118 d; bounds leave about 40 % margin and stay a few per cent of the
# orbital period, so a skipped or repeated event is still reported
ACCURACY_LIMIT = {("Jupiter", "asc"): 25.0, ("Jupiter", "desc"): 25.0,
                  ("Saturn", "asc"): 100.0, ("Saturn", "desc"): 100.0,
                  ("Uranus", "asc"): 600.0, ("Uranus", "desc"): 600.0,
                  ("Uranus", "peri"): 12.0, ("Uranus", "aph"): 12.0}


def key_event(planet, kind, off, exc=None, q=None):
    """Classifier for event-time deviations that are accuracy limits of the
    method, by mechanism (planet + finder) and bounded magnitude."""
    if exc is not None:
        if isinstance(exc, ValueError) and "Invalid interval" in str(exc) \
                and kind in ("peri", "aph", "asc", "desc") \
                and planet in ("Jupiter", "Saturn"):
            # Jupiter: only seen before year -600 on the unchanged tree;
            # Saturn: sporadic events in every era
            if planet == "Jupiter" and q is not None \
                    and q > jd_of_year(-500.0):
                return None
            return "perihelion.three-point-window-misses-extremum"
        return None
    if off is None:
        return None
    b = ACCURACY_LIMIT.get((planet, kind))
    if b is not None and abs(off) <= b:
        return "%s.%s-accuracy" % (planet, "passage_nodes" if kind in (
            "asc", "desc") else "perihelion_aphelion")
    return None


def judge_event(mon, fi, q, t, extra):
    planet, meth, args, kind = FINDERS[fi]
    tol = 1.0 if planet in INNER else 2.0
    case = {"planet": planet, "finder": meth, "args": list(args),
            "query": q, "result": t}
    if planet == "Earth" and kind in ("asc", "desc"):
        return
    f, direction = event_function(planet, kind)
    a, b = f(t - tol), f(t + tol)
    ok = (a < 0) != (b < 0) and abs(a - b) < 2.0
    if ok and direction != 0:
        ok = (direction > 0) == (b > a)
    off = None
    if not ok:
        span = 0.45 * (SYN.get(planet, 400.0) if kind in RANGED
                       else ORB[planet])
        span = min(span, 400.0) if kind in RANGED else \
            min(span, 1.2 * ACCURACY_LIMIT.get((planet, kind), 100.0))
        off = nearest_event_offset(f, direction, t, span,
                                   n=48 if span < 200 else 160)
    mon.check("event.occurs", ok,
              lambda: dict(case, f_before=a, f_after=b, tol_days=tol,
                           nearest_event_offset_days=off),
              lambda: key_event(planet, kind, off))
    if not ok:
        return
    # which conjunction / which side
    if kind in ("infconj", "supconj"):
        rel = geo(planet, t)[3]
        mon.check("conjunction.kind", (rel < 1.0) == (kind == "infconj"),
                  dict(case, planet_distance_over_sun_distance=rel))
    if kind in ("west", "east"):
        lam, sun, el, _r = geo(planet, t)
        mon.check("elongation.side", (wrapr(lam - sun) > 0) == (kind ==
                                                                "east"),
                  dict(case, lon_minus_sun_deg=math.degrees(wrapr(lam
                                                                  - sun))))
        mx = max(geo(planet, t + d)[2] for d in
                 (-tol, -tol / 2, 0.0, tol / 2, tol))
        rep = extra()
        mon.stat("elongation_reported_vs_max_deg",
                 abs(rep - math.degrees(mx)), case)
        mon.check("elongation.reported-angle",
                  abs(rep - math.degrees(mx)) <= 0.05
                  and el >= geo(planet, t + 5.0)[2]
                  and el >= geo(planet, t - 5.0)[2],
                  dict(case, reported=rep, max_nearby=math.degrees(mx)))
    if kind in ("asc", "desc") and extra is not None:
        r = helio(planet, t)[2]
        mon.check("node.radius", abs(extra - r) <= 0.02 * r,
                  dict(case, reported_r=extra, vsop_r=r))


def period_of(fi):
    planet, meth, args, kind = FINDERS[fi]
    return SYN[planet] if kind in RANGED else ORB[planet]


def case_sweep(mon, fi, q0, nper, judge_every=1):
    """Event log of one finder along advancing queries + offline checks."""
    planet, meth, args, kind = FINDERS[fi]
    P = period_of(fi)
    step = P / 20.0
    log = []
    for i in range(int(nper * 20) + 1):
        q = q0 + i * step
        mon.evals += 1
        try:
            t, extra = call_finder(fi, q)
        except Exception as ex:
            mon.dev("finder.no-exception",
                    {"planet": planet, "finder": meth, "args": list(args),
                     "query": q, "raised": repr(ex)},
                    key_event(planet, kind, None, ex, q))
            log.append(None)        # breaks the chain of consecutive queries
            continue
        mon.ok("finder.no-exception")
        log.append((q, t, extra))
    case0 = {"planet": planet, "finder": meth, "args": list(args), "q0": q0}
    prev = None
    distinct = []
    # two results closer than the event tolerance are the same event (node
    # passages depend smoothly on the query through the mean elements and
    # jitter by ~1e-3 d)
    same = max(1.0 if planet in INNER else 2.0, 0.005 * P)
    chains = [[]]
    for item in log:
        if item is None:
            prev = None
            chains.append([])
            continue
        q, t, extra = item
        if abs(t - q) > 1.05 * P:
            mon.dev("result.within-one-period",
                    dict(case0, query=q, result=t, periods=(t - q) / P))
        else:
            mon.ok("result.within-one-period")
        if prev is not None:
            if t < prev[1] - same:
                mon.dev("order.never-backwards",
                        dict(case0, query=q, result=t, previous=prev[1]))
            else:
                mon.ok("order.never-backwards")
            if abs(t - prev[1]) > same:
                mon.cls("query-at-switch-of-result", (fi, q),
                        dict(case0, query=q, result=t, previous=prev[1])
                        if len(distinct) == 1 else None)
        if not distinct or abs(t - distinct[-1][1]) > same:
            distinct.append((q, t, extra))
        if not chains[-1] or abs(t - chains[-1][-1][1]) > same:
            chains[-1].append((q, t, extra))
        prev = (q, t)
    pairs = [(a, b) for ch in chains for a, b in zip(ch, ch[1:])]
    for a, b in pairs:
        gap = (b[1] - a[1]) / P
        mon.stat("spacing/P max %s.%s" % (planet, kind), gap, case0)
        mon.stat("1/(spacing/P) max %s.%s" % (planet, kind), 1.0 / gap
                 if gap > 0 else 1e9, case0)
        mon.check("spacing.one-period", 0.75 <= gap <= 1.3,
                  dict(case0, result_a=a[1], result_b=b[1], periods=gap))
    if abs(q0 - J2000) > 1500 * 365.25:
        mon.cls("era>1500yr-from-2000", (fi, q0))
    mon.cls("sweep", (fi, q0, nper), dict(case0, periods=nper,
                                          distinct_results=len(distinct)))
    for k, (q, t, extra) in enumerate(distinct):
        if k % judge_every == 0:
            mon.begin("event", [fi, q])
            judge_event(mon, fi, q, t, extra)
    return len(log), sum(1 for it in log if it is None)


def case_event(mon, fi, q):
    planet, meth, args, kind = FINDERS[fi]
    mon.evals += 1
    try:
        t, extra = call_finder(fi, q)
    except Exception as ex:
        mon.dev("finder.no-exception",
                {"planet": planet, "finder": meth, "args": list(args),
                 "query": q, "raised": repr(ex)},
                key_event(planet, kind, None, ex, q))
        return
    mon.ok("finder.no-exception")
    mon.cls("random-query", (fi, q))
    P = period_of(fi)
    mon.check("result.within-one-period", abs(t - q) <= 1.05 * P,
              {"planet": planet, "finder": meth, "query": q, "result": t})
    judge_event(mon, fi, q, t, extra)


def case_range(mon, fi, year):
    """Out-of-range query for the finders that document the range."""
    from pymeeus.Epoch import Epoch
    planet, meth, args, kind = FINDERS[fi]
    mon.evals += 1
    q = jd_of_year(year)
    mon.cls("out-of-range-query", (fi, year), [planet, meth, year])
    try:
        r = getattr(cls_of(planet), meth)(Epoch(q), *args)
    except ValueError:
        mon.ok("range.refused")
        return
    except Exception as ex:
        mon.dev("range.refused", {"planet": planet, "finder": meth,
                                  "year": year, "raised": repr(ex)})
        return
    mon.dev("range.refused", {"planet": planet, "finder": meth, "year": year,
                              "returned": repr(r)})


def case_edge(mon, fi, which, off):
    """Queries at and next to the ends of the documented range: 1 January
    -2000 and 1 January 4000 at 0h are inside (year() is exactly -2000.0 and
    4000.0), `off` days further out is outside."""
    from pymeeus.Epoch import Epoch
    planet, meth, args, kind = FINDERS[fi]
    edge = Epoch(-2000, 1, 1.0).jde() if which == "lo" else \
        Epoch(4000, 1, 1.0).jde()
    q = edge + off
    inside = (off >= 0.0) if which == "lo" else (off <= 0.0)
    mon.cls("query-at-range-edge", (fi, which, off), [planet, meth, q])
    if inside:
        case_event(mon, fi, q)
        return
    mon.evals += 1
    try:
        r = getattr(cls_of(planet), meth)(Epoch(q), *args)
    except ValueError:
        mon.ok("range.refused")
        return
    except Exception as ex:
        mon.dev("range.refused", {"planet": planet, "finder": meth,
                                  "query": q, "raised": repr(ex)})
        return
    mon.dev("range.refused", {"planet": planet, "finder": meth, "query": q,
                              "returned": repr(r)})


def case_newyear(mon, fi, years):
    """Two queries a fifth of a day apart on either side of each New Year:
    the finders build their period counter from a calendar year with
    decimals, which restarts there; the result must not step back."""
    from vpm.oracles import daycount as dc
    planet, meth, args, kind = FINDERS[fi]
    P = period_of(fi)
    same = max(1.0 if planet in INNER else 2.0, 0.005 * P)
    if years == "all":
        years = list(range(-1999, 3999))
    for y in years:
        j0 = dc.jdn(y + 1, 1, 1) - 0.5
        try:
            mon.evals += 2
            t1, _e1 = call_finder(fi, j0 - 0.1)
            t2, _e2 = call_finder(fi, j0 + 0.1)
        except Exception as ex:
            mon.dev("finder.no-exception",
                    {"planet": planet, "finder": meth, "args": list(args),
                     "query": j0, "new_year_of": y + 1, "raised": repr(ex)},
                    key_event(planet, kind, None, ex, j0))
            continue
        mon.check("order.never-backwards", t2 >= t1 - same,
                  lambda: {"planet": planet, "finder": meth,
                           "args": list(args), "new_year_of": y + 1,
                           "query_31_dec": j0 - 0.1, "result": t1,
                           "query_1_jan": j0 + 0.1, "result_after": t2,
                           "steps_back_by_days": t1 - t2})
    mon.cls("across-new-year", (fi, len(years), years[0] if years else 0),
            [planet, meth, len(years)])


def case_allyears(mon, fi, y0, y1, stride=1, judge_every=40, first=0):
    """Every event of the domain can be had: starting at year y0, each query
    is placed one period after the previous answer (i.e. at the expected
    instant of the next event, far from the point where the nearest event
    changes), until year y1.  Each query must be answered, with an instant
    within a tenth of a period of the query, and successive answers must be
    one period apart (a skipped, repeated or displaced event breaks the
    chain); every 40th event is also judged against VSOP87."""
    planet, meth, args, kind = FINDERS[fi]
    P = period_of(fi)
    # (stride > 1: every stride-th event, starting with event number `first`;
    # the slow finders of Jupiter and Saturn are walked like that in the
    # quick tier, and every event is judged)
    q = jd_of_year(float(y0)) + (0.5 + first) * P
    end = jd_of_year(float(y1))
    prev = None
    n = 0
    lo, hi = (0.97, 1.03) if planet in INNER else (0.9, 1.1)
    while q < end:
        mon.evals += 1
        n += 1
        try:
            t, extra = call_finder(fi, q)
        except Exception as ex:
            mon.dev("finder.no-exception",
                    {"planet": planet, "finder": meth, "args": list(args),
                     "query": q, "raised": repr(ex)},
                    key_event(planet, kind, None, ex, q))
            prev = None
            q += stride * P
            continue
        mon.ok("finder.no-exception")
        if prev is not None:
            gap = (t - prev) / (P * stride)
            mon.check("spacing.one-period", lo <= gap <= hi,
                      lambda: {"planet": planet, "finder": meth,
                               "args": list(args), "query": q,
                               "result_a": prev, "result_b": t,
                               "periods": gap})
            mon.check("result.within-one-period", abs(t - q) <= 0.1 * P,
                      lambda: {"planet": planet, "finder": meth, "query": q,
                               "result": t, "periods": (t - q) / P})
        prev = t
        if n % judge_every == 1 or judge_every == 1:
            judge_event(mon, fi, q, t, extra)
        q = t + stride * P
    mon.cls("every-event-of-the-domain" if stride == 1
            else "every-%d-th-event-of-the-domain" % stride,
            (fi, y0, y1, first), [planet, meth, list(args), y0, y1, n])


def case_switches(mon, fi, y0, y1, stride=1, first=0):
    """Where the answer changes: between two successive events a < b the
    finder answers a for early queries and b for late ones.  The query at
    which it changes over is located by bisection (to 1e-3 day) and the 0.6
    day around it is walked in steps of 0.01 day: the answer never goes from
    b back to a.  (A finder that picks "the closest event" by more than one
    rule can have a few hours there in which two rules disagree; no sweep
    with steps of a twentieth of a period lands in them.)"""
    planet, meth, args, kind = FINDERS[fi]
    P = period_of(fi)
    same = max(1.0 if planet in INNER else 2.0, 0.005 * P)
    lo_q = max(jd_of_year(float(y0)), jd_of_year(-1999.0)) + 0.5 * P
    end = min(jd_of_year(float(y1)), jd_of_year(3999.0)) - P
    try:
        a, _x = call_finder(fi, lo_q)
    except Exception:
        return
    n = 0
    while a < end:
        n += 1
        try:
            b, _x = call_finder(fi, a + P)
        except Exception:
            a = a + P
            continue
        if not (0.5 * P < b - a < 1.5 * P):
            a = max(b, a + 0.5 * P)
            continue
        if (n - first) % stride == 0:
            lo, hi = a, b
            ok = True
            while hi - lo > 1e-3:
                mid = 0.5 * (lo + hi)
                mon.evals += 1
                try:
                    r, _x = call_finder(fi, mid)
                except Exception:
                    ok = False
                    break
                if abs(r - a) <= same:
                    lo = mid
                elif abs(r - b) <= same:
                    hi = mid
                else:
                    ok = False     # a third answer: left to the sweeps
                    break
            if ok:
                seen_b = None
                q = lo - 0.3
                bad = None
                while q <= lo + 0.3:
                    mon.evals += 1
                    try:
                        r, _x = call_finder(fi, q)
                    except Exception:
                        q += 0.01
                        continue
                    if abs(r - b) <= same:
                        seen_b = q if seen_b is None else seen_b
                    elif abs(r - a) <= same and seen_b is not None:
                        bad = (seen_b, q)
                        break
                    q += 0.01
                mon.check("order.never-backwards", bad is None,
                          lambda: {"planet": planet, "finder": meth,
                                   "args": list(args), "earlier_event": a,
                                   "later_event": b,
                                   "query_answered_with_the_later": bad[0],
                                   "later_query_answered_with_the_earlier":
                                   bad[1]})
        a = b
    mon.cls("change-over-between-successive-events", (fi, y0, y1, first),
            [planet, meth, list(args), y0, y1, n])


def case_leapday(mon, fi, year):
    """Query on 29 February of a Julian century year (a date the proleptic
    Gregorian calendar does not have)."""
    from pymeeus.Epoch import Epoch
    q = Epoch(year, 2, 29).jde()
    mon.cls("query-on-julian-century-leap-day", (fi, year),
            [FINDERS[fi][0], FINDERS[fi][1], year])
    mon.begin("event", [fi, q])
    case_event(mon, fi, q)


CASES = {"history": history.case, "sweep": case_sweep, "event": case_event, "range": case_range, "edge": case_edge, "newyear": case_newyear,
         "leapday": case_leapday, "allyears": case_allyears,
         "switches": case_switches}


def run(mon, spec):
    if "allyears" in spec:
        mon.begin("allyears", spec["allyears"])
        case_allyears(mon, *spec["allyears"])
        return
    if "switches" in spec:
        for fi in spec["switches"][0]:
            p_ = [fi] + spec["switches"][1:]
            mon.begin("switches", p_)
            case_switches(mon, *p_)
        return
    history.run_cases(mon, ID, spec)
    if not sp.self_check():
        raise RuntimeError("sphere self-check failed")
    rng = random.Random(hash((spec["seed"], spec["name"])) & 0xFFFFFFFF)
    full = spec["full"]
    eras = [-1900, 500, 3500] if not full else \
        [-1950, -1000, 0, 1000, 2000, 3000, 3800]
    for fi in spec["finders"]:
        planet, meth, args, kind = FINDERS[fi]
        P = period_of(fi)
        nper = 12 if full else 6
        if not full and P > 5000:
            nper = 2.5            # Saturn / Uranus orbital finders are slow
        elif not full and P > 2000:
            nper = 4
        tot = [0, 0]
        for era in eras:
            y = era + rng.uniform(0, 60)
            span_y = nper * P / 365.25
            y = min(y, 3995.0 - span_y)
            y = max(y, -1995.0)
            q0 = jd_of_year(y)
            mon.begin("sweep", [fi, q0, nper])
            n, ne = case_sweep(mon, fi, q0, nper, 1 if not full else 2)
            tot[0] += n
            tot[1] += ne
        # the recorded "window misses the extremum" finding explains a
        # refusal now and then (<= 25 % of a finder's sweep queries on the
        # unchanged tree), not a finder that refuses most of the time
        mon.begin("sweeps", [fi])
        mon.check("finder.answers-most-queries", tot[1] <= 0.5 * tot[0],
                  {"planet": planet, "finder": meth, "args": list(args),
                   "sweep_queries": tot[0], "raised": tot[1]})
        for _dummy in ():
            pass
        nrand = 600 if full else 16
        if kind in ("peri", "aph", "asc", "desc") and not full:
            nrand = 8
        if kind in ("peri", "aph", "asc", "desc") and full:
            nrand = 150
        for _ in range(nrand):
            q = jd_of_year(rng.uniform(-1995.0, 3995.0))
            mon.begin("event", [fi, q])
            case_event(mon, fi, q)
        # queries whose events fall around the calendar seams (the result
        # is built with Epoch(<number>), i.e. through the calendar)
        for lab, j in seams.seam_jdes(rng, 30 if full else 5):
            if jd_of_year(-1999.0) < j < jd_of_year(3999.0):
                q = j - rng.uniform(0.0, 1.0) * period_of(fi) * rng.choice(
                    (0.0, 0.5, 1.0))
                q = max(q, jd_of_year(-1999.0))
                mon.begin("event", [fi, q])
                case_event(mon, fi, q)
                mon.cls("event-near-calendar-seam", (fi, q), [planet, meth,
                                                              lab, q])
        # New Years: all of them in the thorough tier, a seeded sample (and
        # the century and reform years) in the quick one
        if full:
            ys = list(range(-1999, 3999))
        else:
            ys = sorted(set([rng.randrange(-1999, 3999) for _ in range(60)]
                            + [1582, 1583, 1599, 1600, 1899, 1900, 1999, -1,
                               0, 3]))
        mon.begin("newyear", [fi, ys if not full else "all"])
        case_newyear(mon, fi, ys)
        if kind in RANGED:
            for yr in (-2000.6, -2500.0, 4000.6, 5000.0):
                mon.begin("range", [fi, yr])
                case_range(mon, fi, yr)
            for which, off in (("lo", 0.0), ("lo", 1e-3), ("lo", -1e-3),
                               ("hi", 0.0), ("hi", -1e-3), ("hi", 1e-3),
                               ("lo", 25.0), ("hi", -25.0)):
                mon.begin("edge", [fi, which, off])
                case_edge(mon, fi, which, off)
        for yr in (rng.choice((-1900, -500, 300, 900, 1500)), 1300):
            mon.begin("leapday", [fi, yr])
            case_leapday(mon, fi, yr)
