"""C01 - calendar date <-> Julian Day is an exact bijection on civil days."""
import random

from vpm.oracles import daycount as dc

ID = "C01"
RULE = ("Every civil day of the selected years (thorough: all years -4712..6000, "
        "exhaustive; quick: every 3rd year from a seeded offset + all century "
        "years + -4712..-4700, 1570..1600, 5990..6000) is built with "
        "Epoch(y, m, d) and read back; oracle = independent day counter "
        "(exact float equality).  Per month: refusal probes day 0, 0.5, "
        "-1, 0.999, every day len+1..33, len+1.0, len+1.5, 99, 366 in seven "
        "month forms; month given as short/long/mixed-case name on "
        "first and last day.  Non-trivial = month end, leap day, any day of a "
        "century year, year <= 0, reform days 1582-10-04/15, refusal probe, "
        "name-form probe; distinct by (y, m, d, probe).")
ASSUMPTIONS = [
    "day counter oracle (month lengths, Julian rule to 1582-10-04, Gregorian "
    "after) is right; self-checked against 3 JD anchors and datetime >= 1583",
    "days 5..14 October 1582 are neither required to be accepted nor refused "
    "and are not probed",
]
EXHAUSTIVE = {"quick": False, "thorough": True}
SHORT = ["Jan", "Feb", "Mar", "Apr", "May", "Jun", "Jul", "Aug", "Sep", "Oct",
         "Nov", "Dec"]
LONG = ["January", "February", "March", "April", "May", "June", "July",
        "August", "September", "October", "November", "December"]


def anchors():
    from pymeeus.Epoch import Epoch
    from pymeeus import base
    return {"Epoch._compute_jde": Epoch._compute_jde,
            "Epoch.get_date": Epoch.get_date,
            "Epoch._check_values": Epoch._check_values,
            "Epoch.get_month": Epoch.get_month,
            "Epoch.is_leap": Epoch.is_leap,
            "Epoch.is_julian": Epoch.is_julian,
            "base.iint": base.iint}


POINTS = {
    "jde.gregorian-b": ("Epoch._compute_jde", "b = 2.0 - a"),
    "jde.janfeb": ("Epoch._compute_jde", "y -= 1"),
    "get_date.julian": ("Epoch.get_date", "a = z"),
    "get_date.gregorian": ("Epoch.get_date", "alpha = iint"),
    "check.leapfeb": ("Epoch._check_values", "limit_day = 29"),
    "check.raise-day": ("Epoch._check_values", "if day >= limit_day + 1"),
    "month.short": ("Epoch.get_month", "if month in months_mmm"),
    "month.long": ("Epoch.get_month", "if month in months_full"),
}
REQUIRED_POINTS = list(POINTS)
REQUIRED_CLAUSES = ["history.views==fresh-object", "jde==daycount", "get_date==input", "refuse.bad-day",
                    "get_date(explicit-defaults)==get_date",
                    "step==1.0", "mjd", "anchors", "month-name-forms"]


def years_for(tier, seed):
    if tier == "thorough":
        return list(range(-4712, 6001))
    off = random.Random(seed).randrange(3)
    ys = set(range(-4712 + off, 6001, 3))
    ys.update(range(-4700, 6001, 100))
    ys.update(range(-4712, -4699))
    ys.update(range(1570, 1601))
    ys.update(range(5990, 6001))
    return sorted(ys)


def shards(tier, seed):
    ys = years_for(tier, seed)
    n = 32 if tier == "thorough" else 16
    # interleave so every shard sees every era
    return [{"name": "years-%02d" % i, "years": ys[i::n]} for i in range(n)]


def case_year(mon, y):
    from pymeeus.Epoch import Epoch
    prev = None
    century = (y % 100 == 0)
    for m, d, j0, wd, doy in dc.walk_year(y):
        mon.evals += 1
        try:
            e = Epoch(y, m, d)
            j = e.jde()
            got = e.get_date()
            mj = e.mjd()
        except Exception as ex:
            mon.dev("jde==daycount", {"date": [y, m, d], "raised": repr(ex)})
            prev = None
            continue
        if j != j0:
            mon.dev("jde==daycount", {"date": [y, m, d], "jde": j,
                                      "expected": j0})
        else:
            mon.ok("jde==daycount")
        gy, gm, gd = got
        if not (type(gy) is int and type(gm) is int and gy == y and gm == m
                and gd == float(d)):
            mon.dev("get_date==input", {"date": [y, m, d], "got": list(got)})
        else:
            mon.ok("get_date==input")
        if mj != j - 2400000.5:
            mon.dev("mjd", {"date": [y, m, d], "mjd": mj, "jde": j})
        else:
            mon.ok("mjd")
        if prev is not None:
            if j - prev != 1.0:
                mon.dev("step==1.0", {"date": [y, m, d], "jde": j,
                                      "previous_jde": prev})
            else:
                mon.ok("step==1.0")
        prev = j
        last = (d == dc.month_len(y, m))
        if last:
            mon.cls("month-end", (y, m, d))
        if m == 2 and d == 29:
            mon.cls("leap-day", (y, m, d), [y, m, d, j])
        if century:
            mon.cls("century-year", (y, m, d))
        if y <= 0:
            mon.cls("year<=0", (y, m, d))
        if y == 1582 and m == 10 and d in (4, 15):
            mon.cls("reform-boundary", (y, m, d), [y, m, d, j])
        if d == 1 or last or d == 15:
            # the read-back options spelled out with their documented
            # default values read what the plain call reads
            try:
                spelled = {"get_date(utc=False)": e.get_date(utc=False),
                           "get_date(local=False)": e.get_date(local=False),
                           "get_date(utc=False, local=False)":
                           e.get_date(utc=False, local=False),
                           "get_full_date(utc=False)[:3]":
                           e.get_full_date(utc=False)[:3]}
            except Exception as ex:
                spelled = {"raised": repr(ex)}
            mon.check("get_date(explicit-defaults)==get_date",
                      all(tuple(v)[:2] == tuple(got)[:2]
                          and int(tuple(v)[2]) == int(got[2])
                          for v in spelled.values()
                          if not isinstance(v, str))
                      and "raised" not in spelled,
                      lambda: {"date": [y, m, d], "plain": list(got),
                               "spelled_out": repr(spelled)})
        if d == 1 or last:
            ok = True
            forms = (SHORT[m - 1], LONG[m - 1], SHORT[m - 1].upper(),
                     LONG[m - 1].lower())
            for name in forms:
                mon.evals += 1
                try:
                    jn = Epoch(y, name, d).jde()
                except Exception as ex:
                    jn = repr(ex)
                if jn != j0:
                    ok = False
                    mon.dev("month-name-forms",
                            {"date": [y, name, d], "got": jn, "expected": j0})
            if ok:
                mon.ok("month-name-forms")
            mon.cls("name-form", (y, m, d, "name"), [y, forms[d % 4], d, j0])
    # link to the first day of the next year
    if y < 6000 and prev is not None:
        try:
            jn = Epoch(y + 1, 1, 1).jde()
            mon.check("step==1.0", jn - prev == 1.0,
                      {"date": [y + 1, 1, 1], "jde": jn, "previous_jde": prev})
        except Exception as ex:
            mon.dev("step==1.0", {"date": [y + 1, 1, 1], "raised": repr(ex)})
    # refusal probes: the day that does not exist, with the month written in
    # every documented way (number, float, short and long name, inside a
    # tuple or a list)
    for m in range(1, 13):
        ln = dc.month_len(y, m)
        # every day number past the month's end up to 33 (31 February is
        # two or three past), below-one values, and far-out ones
        bads = [0, 0.5, -1, 0.999, float(ln + 1), ln + 1.5, 99, 366]
        bads += list(range(ln + 1, 34))
        for bad in bads:
            forms = (("int", (y, m, bad)),
                     ("float-month", (y, float(m), bad)),
                     ("short-name", (y, SHORT[m - 1], bad)),
                     ("long-name", (y, LONG[m - 1], bad)),
                     ("tuple", ((y, m, bad),)),
                     ("list-with-name", ([y, SHORT[m - 1], bad],)),
                     ("with-time", (y, LONG[m - 1].upper(), int(bad),
                                    0, 0, 0.0)))
            for fname, a in forms:
                if fname == "with-time" and bad != int(bad):
                    continue
                mon.evals += 1
                mon.cls("refusal-probe", (y, m, "bad", bad),
                        [y, m, bad, "ValueError expected"])
                mon.cls("refusal-probe:" + fname, (y, m, bad))
                try:
                    r = Epoch(*a)
                except ValueError:
                    mon.ok("refuse.bad-day")
                    continue
                except Exception as ex:
                    mon.dev("refuse.bad-day", {"form": fname,
                                               "args": repr(a),
                                               "raised": repr(ex)})
                    continue
                mon.dev("refuse.bad-day", {"form": fname, "args": repr(a),
                                           "accepted_as_jde": r.jde()})


def case_anchors(mon):
    from pymeeus.Epoch import Epoch
    mon.evals += 3
    a = Epoch(-4712, 1, 1.5).jde()
    b = Epoch(1858, 11, 17).mjd()
    c = Epoch(2000, 1, 1.5).jde()
    d = Epoch(-4712, 1, 1, 12).jde()
    mon.check("anchors", a == 0.0 and b == 0.0 and c == 2451545.0
              and d == 0.0, {"jd0": a, "mjd0": b, "j2000": c, "jd0_hms": d})
    mon.cls("anchor", ("anchors",), {"-4712-01-01 12h": a,
                                     "1858-11-17 mjd": b, "2000-01-01 12h": c})


def _objhistory(mon, sv):
    from vpm.props import c02 as _c02
    _c02.case_objhistory(mon, sv)


CASES = {"objhistory": _objhistory, "year": case_year, "anchors": case_anchors}


def run(mon, spec):
    if not dc.self_check():
        raise RuntimeError("day counter self-check failed")
    mon.begin("anchors", [])
    case_anchors(mon)
    rng_h = random.Random(repr(sorted(spec.get('years', []))[:3]) + str(spec.get('seed', 0)))
    # one Epoch object through option-carrying reads and every form of
    # set(): its plain views stay those of a fresh Epoch of the same JDE
    from vpm.props import c02 as _c02
    for _ in range(40):
        sv = rng_h.randrange(1 << 30)
        mon.begin("objhistory", [sv])
        _c02.case_objhistory(mon, sv)
    for y in spec["years"]:
        mon.begin("year", [y])
        case_year(mon, y)
