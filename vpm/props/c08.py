"""C08 - Sun/Earth positions agree across frames; obliquity and nutation are
sane."""
import datetime
import math
import random

from vpm import history
from vpm.oracles import sphere as sp

ID = "C08"
RULE = ("Seeded epochs: years -2000..4000 for the reflection, obliquity and "
        "nutation clauses; 1000..3000 (all seasons) with equinox epochs "
        "within +-3 centuries for the frame clauses; 1800..2200 for the "
        "low-accuracy formulas; 200 (quick) / 4000 (thorough) civil dates in "
        "every accepted argument form. Oracles: reflection of the library's "
        "own Earth position; the of-date position turned equatorial with the "
        "library's mean obliquity and carried to J2000 / B1950 / an arbitrary "
        "equinox by the library's precession_equatorial (as the property "
        "states); IAU 1976 obliquity cubic; 18.6-year main nutation terms on "
        "the Moon's mean node. Non-trivial = |year-2000| > 500, equinox other "
        "than J2000/B1950, non-Epoch date form; distinct by (clause group, "
        "epoch).")
ASSUMPTIONS = [
    "frame clauses use the library's own precession_equatorial, "
    "ecliptical2equatorial and mean_obliquity as the carrier (C05/C06 judge "
    "those)",
    "B1950.0 = JDE 2433282.4235",
    "known frame findings are recognised by re-deriving the expected wrong "
    "value from the mechanism (series typo / overwritten rows) and requiring "
    "agreement with it to 1e-5 AU, not by magnitude alone",
]
EXHAUSTIVE = {"quick": False, "thorough": False}
J2000 = 2451545.0
B1950 = 2433282.4235
EPS0 = math.degrees(math.asin(0.397776982902))
AS = 1.0 / 3600.0


def anchors():
    from pymeeus.Sun import Sun
    from pymeeus import Coordinates as C
    return {"Sun.geometric_geocentric_position":
            Sun.geometric_geocentric_position,
            "Sun.rectangular_coordinates_mean_equinox":
            Sun.rectangular_coordinates_mean_equinox,
            "Sun.rectangular_coordinates_j2000":
            Sun.rectangular_coordinates_j2000,
            "Sun.rectangular_coordinates_b1950":
            Sun.rectangular_coordinates_b1950,
            "Sun.rectangular_coordinates_equinox":
            Sun.rectangular_coordinates_equinox,
            "mean_obliquity": C.mean_obliquity,
            "nutation_longitude": C.nutation_longitude}


POINTS = {}
REQUIRED_CLAUSES = [history.CLAUSE, "option.tofk5-small", "reflection.geometric", "reflection.apparent",
                    "frame.mean-equinox", "frame.j2000", "frame.b1950",
                    "frame.equinox", "frame.norm==R", "obliquity~IAU",
                    "nutation.longitude~18.6yr", "nutation.obliquity~18.6yr",
                    "true==mean+deps", "coarse.true-longitude",
                    "coarse.apparent-longitude", "coarse.ra-dec", "coarse.radius-vector",
                    "date-forms.identical"]


def shards(tier, seed):
    mult = 25 if tier == "thorough" else 1
    return [{"name": "s%02d" % i, "idx": i, "n_frame": 150 * mult,
             "n_refl": 100 * mult, "n_obl": 200 * mult,
             "n_coarse": 100 * mult, "n_forms": 12 * mult}
            for i in range(16)]


def jd_of_year(y):
    return J2000 + (y - 2000.0) * 365.25


def wrap(d):
    return (d + 180.0) % 360.0 - 180.0


def typo_dL(jde):
    """Longitude (rad) the J2000 series is short of because its third L0
    term has frequency 12556.1517 instead of 12566.1517: correct - typo."""
    t = (jde - J2000) / 365250.0
    return 34894e-8 * (math.cos(4.6261 + 12566.1517 * t)
                       - math.cos(4.6261 + 12556.1517 * t))


def equinox_matrix_with_tt(v, jde, eq_jde):
    """J2000 -> equinox rotation as Meeus gives it (zeta, z, theta from
    J2000), but with the library's known extra terms in
    tt = (epoch - equinox): the second mechanism behind the recorded
    frame.equinox finding.  With tt = 0 this is the plain rotation."""
    t = (eq_jde - J2000) / 36525.0
    tt = (jde - eq_jde) / 36525.0
    zeta = t * ((2306.2181 + tt * (1.39656 - 0.000139 * tt))
                + t * ((0.30188 - 0.000344 * tt) + 0.017998 * t))
    z = t * ((2306.2181 + tt * (1.39656 - 0.000139 * tt))
             + t * ((1.09468 + 0.000066 * tt) + 0.018203 * t))
    th = t * (2004.3109 + tt * (-0.85330 - 0.000217 * tt)
              + t * (-(0.42665 + 0.000217 * tt) - 0.041833 * t))
    # R = Rz(-z) Ry(theta) Rz(-zeta) applied to the column vector
    w = sp.rot_z(v, zeta * AS)
    w = sp.rot_y(w, -th * AS)
    w = sp.rot_z(w, z * AS)
    return w


def precess_vec(v, r, start, final):
    """Carry an equatorial vector (unit * r) with the library's precession."""
    from pymeeus import Coordinates as C
    from pymeeus.Angle import Angle
    from pymeeus.Epoch import Epoch
    lo, la = sp.lonlat(v)
    a, d = C.precession_equatorial(Epoch(start), Epoch(final), Angle(lo),
                                   Angle(la))
    return tuple(r * c for c in sp.vec(a(), d()))


def case_reflection(mon, jde):
    from pymeeus.Epoch import Epoch
    from pymeeus.Sun import Sun
    from pymeeus.Earth import Earth
    mon.evals += 1
    e = Epoch(jde)
    case = {"jde": jde}
    if abs(jde - J2000) > 500 * 365.25:
        mon.cls("|year-2000|>500", ("refl", jde))
    else:
        mon.cls("reflection", ("refl", jde))
    for tofk5 in (True, False):
        try:
            lo, la, r = Sun.geometric_geocentric_position(e, tofk5)
            L, B, R = Earth.geometric_heliocentric_position(e, tofk5)
        except Exception as ex:
            mon.dev("reflection.geometric", dict(case, raised=repr(ex)))
            return
        mon.check("reflection.geometric",
                  abs(wrap(lo() - L() - 180.0)) <= 1e-9
                  and abs(la() + B()) <= 1e-9 and r == R
                  and -360.0 < lo() < 360.0,
                  dict(case, tofk5=tofk5, sun=[lo(), la(), r],
                       earth=[L(), B(), R]))
    for nut in (True, False):
        try:
            lo, la, r = Sun.apparent_geocentric_position(e, nut)
            L, B, R = Earth.apparent_heliocentric_position(e, nut)
        except Exception as ex:
            mon.dev("reflection.apparent", dict(case, raised=repr(ex)))
            return
        mon.check("reflection.apparent",
                  abs(wrap(lo() - L() - 180.0)) <= 1e-9
                  and abs(la() + B()) <= 1e-9 and r == R,
                  dict(case, nutation=nut, sun=[lo(), la(), r],
                       earth=[L(), B(), R]))
    # the FK5 option changes a position by the documented correction only
    # (0.09 arcsec in longitude, < 0.06 in latitude, nothing in distance), in
    # the of-date frame and in the J2000 frame alike, and given positionally
    # or by keyword
    for name in ("geometric_heliocentric_position",
                 "geometric_heliocentric_position_j2000"):
        f = getattr(Earth, name)
        try:
            L1, B1, R1 = f(e)
            L0, B0, R0 = f(e, tofk5=False)
            L0p, B0p, R0p = f(e, False)
        except Exception as ex:
            mon.dev("option.tofk5-small", dict(case, fn=name,
                                               raised=repr(ex)))
            continue
        dl = wrap(L1() - L0()) * 3600.0
        db = (B1() - B0()) * 3600.0
        mon.check("option.tofk5-small", abs(dl) <= 0.2 and abs(db) <= 0.1
                  and R1 == R0 and (L0p(), B0p(), R0p) == (L0(), B0(), R0),
                  dict(case, fn=name, dlon_arcsec=dl, dlat_arcsec=db,
                       with_fk5=[L1(), B1(), R1], without=[L0(), B0(), R0]))
    mon.check("epoch-unchanged", e.jde() == Epoch(jde).jde(), case)


def case_frames(mon, jde, eq_jde):
    from pymeeus.Epoch import Epoch
    from pymeeus.Sun import Sun
    from pymeeus import Coordinates as C
    mon.evals += 1
    e = Epoch(jde)
    case = {"jde": jde, "equinox": eq_jde}
    ident = ("frame", jde, eq_jde)
    if abs(jde - J2000) > 500 * 365.25:
        mon.cls("|year-2000|>500", ident)
    if min(abs(eq_jde - J2000), abs(eq_jde - B1950)) < 1.0:
        mon.cls("standard-equinox-given-to-the-general-function", ident)
    else:
        mon.cls("equinox-other-than-J2000/B1950", ident)
    try:
        lon, lat, r = Sun.geometric_geocentric_position(e)
        eps = C.mean_obliquity(e)
        ra, dec = C.ecliptical2equatorial(lon, lat, eps)
        xyz_date = Sun.rectangular_coordinates_mean_equinox(e)
        xyz_j = Sun.rectangular_coordinates_j2000(e)
        xyz_b = Sun.rectangular_coordinates_b1950(e)
        xyz_e = Sun.rectangular_coordinates_equinox(e, Epoch(eq_jde))
    except Exception as ex:
        mon.dev("frame.mean-equinox", dict(case, raised=repr(ex)))
        return
    v_date = tuple(r * c for c in sp.vec(ra(), dec()))
    d0 = math.dist(v_date, xyz_date)
    mon.stat("frame_mean_equinox_err_AU", d0, case)
    mon.check("frame.mean-equinox", d0 <= 1e-9,
              dict(case, library=list(xyz_date), expected=list(v_date)))
    for name, v in (("mean", xyz_date), ("j2000", xyz_j), ("b1950", xyz_b),
                    ("equinox", xyz_e)):
        nrm = math.sqrt(sum(c * c for c in v))
        mon.stat("frame_norm_minus_R_AU " + name, abs(nrm - r), case)
        # a rotation keeps the length: 1e-9 AU (the unchanged tree stays
        # within 3.4e-13 AU in the J2000 and arbitrary-equinox frames and
        # 1.8e-11 AU in the frame of date, which neglects the Sun's
        # latitude of 1.2"); the 1e-5 AU of the statement is for the
        # comparison between frames
        mon.check("frame.norm==R", abs(nrm - r) <= (1e-9 if name != "b1950"
                                                    else 1e-5),
                  dict(case, frame=name, norm=nrm, R=r),
                  "frame.b1950-rows-overwritten" if name == "b1950"
                  and abs(nrm - r) <= 0.06 else None)
    unit = sp.vec(ra(), dec())
    want_j = precess_vec(unit, r, jde, J2000)
    want_b = precess_vec(unit, r, jde, B1950)
    want_e = precess_vec(unit, r, jde, eq_jde)
    # the same three with the mechanism of the known series typo applied:
    # rotate the J2000 vector about the J2000 ecliptic pole by -dL
    dl = math.degrees(typo_dL(jde))
    ecl = sp.rot_x(want_j, -EPS0)
    ecl_typo = sp.rot_z(ecl, -dl)
    wj_typo = sp.rot_x(ecl_typo, EPS0)
    we_typo = equinox_matrix_with_tt(wj_typo, jde, eq_jde)
    # B1950 with the rows applied to already overwritten values
    x, y, z = ecl_typo
    xb = 0.999925702634 * x + 0.012189716217 * y + 0.000011134016 * z
    yb = -0.011179418036 * xb + 0.917413998946 * y - 0.397777041885 * z
    zb = -0.004859003787 * xb + 0.397747363646 * yb + 0.917482111428 * z
    wb_buggy = (xb, yb, zb)

    def judge(clause, got, want, want_defect, key):
        err = math.dist(got, want)
        mon.stat(clause + "_err_AU", err, case)
        k = None
        if want_defect is not None and math.dist(got, want_defect) <= 1e-5:
            k = key
        mon.stat(clause + "_err_after_removing_known_mechanism_AU",
                 math.dist(got, want_defect), case)
        mon.check(clause, err <= 1e-5,
                  lambda: dict(case, library=list(got), expected=list(want),
                               error_AU=err), k)

    judge("frame.j2000", xyz_j, want_j, wj_typo, "frame.j2000-L0-term-typo")
    judge("frame.equinox", xyz_e, want_e, we_typo,
          "frame.j2000-L0-term-typo" if abs(jde - eq_jde) < 1.0
          else "frame.equinox-spurious-epoch-terms")
    judge("frame.b1950", xyz_b, want_b, wb_buggy,
          "frame.b1950-rows-overwritten")


def case_obliquity(mon, jde):
    from pymeeus.Epoch import Epoch
    from pymeeus import Coordinates as C
    from pymeeus.Moon import Moon
    mon.evals += 1
    e = Epoch(jde)
    T = (jde - J2000) / 36525.0
    case = {"jde": jde}
    if abs(jde - J2000) > 500 * 365.25:
        mon.cls("|year-2000|>500", ("obl", jde))
    else:
        mon.cls("obliquity-nutation", ("obl", jde))
    try:
        e0 = C.mean_obliquity(e)()
        et = C.true_obliquity(e)()
        dpsi = C.nutation_longitude(e)()
        deps = C.nutation_obliquity(e)()
        om = Moon.longitude_mean_ascending_node(e).rad()
    except Exception as ex:
        mon.dev("obliquity~IAU", dict(case, raised=repr(ex)))
        return
    if abs(T) <= 20.0:
        iau = 23.0 + 26.0 / 60 + 21.448 * AS - (46.8150 * T + 0.00059 * T * T
                                                - 0.001813 * T ** 3) * AS
        mon.stat("obliquity_vs_IAU_arcsec", abs(e0 - iau) * 3600, case)
        mon.check("obliquity~IAU", abs(e0 - iau) * 3600 <= 3.0,
                  dict(case, mean_obliquity=e0, iau_cubic=iau))
    a = abs(dpsi * 3600 + 17.20 * math.sin(om))
    b = abs(deps * 3600 - 9.20 * math.cos(om))
    mon.stat("nutation_longitude_vs_main_term_arcsec", a, case)
    mon.stat("nutation_obliquity_vs_main_term_arcsec", b, case)
    mon.check("nutation.longitude~18.6yr", a <= 3.5,
              dict(case, dpsi_arcsec=dpsi * 3600,
                   main_term=-17.20 * math.sin(om)), key_nut(T, a, 3.5))
    mon.check("nutation.obliquity~18.6yr", b <= 1.5,
              dict(case, deps_arcsec=deps * 3600,
                   main_term=9.20 * math.cos(om)), key_nut(T, b, 1.5))
    mon.check("true==mean+deps", abs(et - (e0 + deps)) <= 1e-9,
              dict(case, true=et, mean=e0, deps=deps))


def key_nut(T, err, bound):
    return None


def case_coarse(mon, jde):
    from pymeeus.Epoch import Epoch
    from pymeeus.Sun import Sun
    from pymeeus import Coordinates as C
    mon.evals += 1
    e = Epoch(jde)
    case = {"jde": jde}
    mon.cls("coarse-1800-2200", ("coarse", jde))
    try:
        lt, rt = Sun.true_longitude_coarse(e)
        la, ra_ = Sun.apparent_longitude_coarse(e)
        a, d, r3 = Sun.apparent_rightascension_declination_coarse(e)
        gl, gb, gr = Sun.geometric_geocentric_position(e)
        al, ab, ar = Sun.apparent_geocentric_position(e)
        et = C.true_obliquity(e)
        ra, dec = C.ecliptical2equatorial(al, ab, et)
    except Exception as ex:
        mon.dev("coarse.true-longitude", dict(case, raised=repr(ex)))
        return
    d1 = abs(wrap(lt() - gl()))
    d2 = abs(wrap(la() - al()))
    d3 = sp.sep_ll(a(), d(), ra(), dec())
    mon.stat("coarse_vs_vsop_deg", max(d1, d2, d3), case)
    mon.check("coarse.true-longitude", d1 <= 0.02,
              dict(case, coarse=lt(), vsop=gl()))
    # the radius vector each of the three returns: 0.02 degree of arc at
    # 1 AU is 3.5e-4 AU (the unchanged tree stays within 8.2e-5 AU)
    dr = max(abs(rt - gr), abs(ra_ - ar), abs(r3 - ar))
    mon.stat("coarse_radius_vs_vsop_au", dr, case)
    mon.check("coarse.radius-vector", dr <= 3.5e-4,
              lambda: dict(case, coarse=[rt, ra_, r3], vsop=[gr, ar]))
    mon.check("coarse.apparent-longitude", d2 <= 0.02,
              dict(case, coarse=la(), vsop=al()))
    mon.check("coarse.ra-dec", d3 <= 0.02,
              dict(case, coarse=[a(), d()], vsop=[ra(), dec()]))


def case_forms(mon, y, m, d):
    from pymeeus.Epoch import Epoch
    from pymeeus import Coordinates as C
    mon.evals += 1
    case = {"date": [y, m, d]}
    mon.cls("non-Epoch-date-form", ("forms", y, m, d), case)
    fns = {"mean_obliquity": C.mean_obliquity,
           "true_obliquity": C.true_obliquity,
           "nutation_longitude": C.nutation_longitude,
           "nutation_obliquity": C.nutation_obliquity}
    forms = {"Epoch": (Epoch(y, m, d),), "y,m,d": (y, m, d),
             "tuple": ((y, m, d),), "list": ([y, m, d],)}
    if 1 <= y <= 9999:
        try:
            forms["date"] = (datetime.date(y, m, d),)
            forms["datetime"] = (datetime.datetime(y, m, d),)
        except ValueError:
            pass
    for name, f in fns.items():
        vals = {}
        for form, args in forms.items():
            try:
                vals[form] = f(*args)()
            except Exception as ex:
                vals[form] = repr(ex)
        ref = vals["Epoch"]
        mon.check("date-forms.identical",
                  all(v == ref for v in vals.values()),
                  dict(case, fn=name, values=vals))
    # forms that carry a time of day: whatever instant the library takes
    # them to mean, true obliquity is mean obliquity plus nutation for the
    # same arguments
    h, mi, sec = (y * 7 + d) % 24, (m * 11 + d) % 60, 12.5
    timed = {"y,m,d.frac": (y, m, d + h / 24.0 + mi / 1440.0),
             "y,m,d,h,mi,s": (y, m, d, h, mi, sec),
             "tuple-6": ((y, m, d, h, mi, sec),),
             "list-6": ([y, m, d, h, mi, sec],),
             "Epoch-with-time": (Epoch(y, m, d, h, mi, sec),)}
    if 1 <= y <= 9999:
        try:
            timed["datetime-with-time"] = (datetime.datetime(
                y, m, d, h, mi, 12, 500000),)
        except ValueError:
            pass
    for form, args in timed.items():
        mon.evals += 1
        try:
            t_ = C.true_obliquity(*args)()
            m_ = C.mean_obliquity(*args)()
            n_ = C.nutation_obliquity(*args)()
        except Exception as ex:
            mon.dev("true==mean+deps", dict(case, form=form,
                                            raised=repr(ex)))
            continue
        mon.check("true==mean+deps", abs(t_ - (m_ + n_)) <= 1e-9,
                  dict(case, form=form, true=t_, mean=m_, deps=n_,
                       difference_arcsec=(t_ - m_ - n_) * 3600))


def case_frames_chain(mon, jde, eq_jde, step_s, n):
    """The frame comparison at instants a minute to an hour apart, one after
    the other in one process: each is judged on its own, so an answer kept
    from the previous instant (about 2e-7 AU per second of staleness) shows
    as soon as it is 50 s old."""
    for k in range(n):
        case_frames(mon, jde + k * step_s / 86400.0, eq_jde)
    mon.cls("frames-at-successive-instants", ("chain", jde, step_s))


CASES = {"frames_chain": case_frames_chain, "history": history.case, "reflection": case_reflection, "frames": case_frames,
         "obliquity": case_obliquity, "coarse": case_coarse,
         "forms": case_forms}


def run(mon, spec):
    history.run_cases(mon, ID, spec)
    if not sp.self_check():
        raise RuntimeError("sphere self-check failed")
    rng = random.Random(spec["seed"] * 1000003 + spec["idx"])
    if spec["idx"] == 0:
        p = [Epoch_jde(1992, 10, 13.0), 2467616.0]
        mon.begin("frames", p)
        case_frames(mon, *p)
    for _ in range(spec["n_frame"]):
        y = rng.uniform(1000.0, 3000.0)
        jde = jd_of_year(y)
        eq = jd_of_year(y + rng.uniform(-300.0, 300.0))
        if rng.random() < 0.2:
            eq = jde         # equinox of date: isolates the rotation itself
        elif rng.random() < 0.15:
            # the two standard equinoxes (which have dedicated functions of
            # their own) given to the arbitrary-equinox function, exactly
            # and within half a day
            eq = rng.choice((J2000, B1950, 2433282.5)) + rng.choice(
                (0.0, 0.0, 0.3, -0.3, 1e-6))
        mon.begin("frames", [jde, eq])
        case_frames(mon, jde, eq)
    for _ in range(max(6, spec["n_frame"] // 25)):
        jde = jd_of_year(rng.uniform(1000.0, 3000.0))
        eq = rng.choice((jde, J2000, jd_of_year(rng.uniform(1000., 3000.))))
        p = [jde, eq, rng.choice((72.0, 72.0, 80.0, 84.0, 600.0, 3600.0)),
             12]
        mon.begin("frames_chain", p)
        case_frames_chain(mon, *p)
    for _ in range(spec["n_refl"]):
        jde = jd_of_year(rng.uniform(-2000.0, 4000.0))
        mon.begin("reflection", [jde])
        case_reflection(mon, jde)
    for _ in range(spec["n_obl"]):
        jde = jd_of_year(rng.uniform(-2000.0, 4000.0))
        mon.begin("obliquity", [jde])
        case_obliquity(mon, jde)
    for _ in range(spec["n_coarse"]):
        jde = jd_of_year(rng.uniform(1800.0, 2200.0))
        mon.begin("coarse", [jde])
        case_coarse(mon, jde)
    if spec["idx"] == 0:
        # years whose number is "falsy" or changes sign, in every form
        for y in (0, -1, 1, -2000, 1582, 1583):
            for m, d in ((1, 1), (3, 1), (12, 31)):
                mon.begin("forms", [y, m, d])
                case_forms(mon, y, m, d)
    for _ in range(spec["n_forms"]):
        y = rng.choice((rng.randrange(1583, 3000), rng.randrange(-2000, 4000),
                        rng.randrange(1, 1582)))
        m = rng.randrange(1, 13)
        d = rng.randrange(1, 29)
        mon.begin("forms", [y, m, d])
        case_forms(mon, y, m, d)


def Epoch_jde(y, m, d):
    from pymeeus.Epoch import Epoch
    return Epoch(y, m, d).jde()
