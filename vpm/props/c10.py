"""C10 - UTC <-> TT offset follows the IERS leap-second history and inverts."""
from vpm.oracles import daycount as dc
from vpm.oracles import iers

ID = "C10"
RULE = ("Finite enumeration, complete in both tiers for the table part: years "
        "1950..2100 x 12 months x days {1, 15, last} x times {0h, 12h, "
        "23:59:59}: Epoch(..., utc=True) - Epoch(...) against the IERS list "
        "(1e-4 s), read-back get_full_date(utc=True) (1 ms); the same with "
        "leap_seconds=k (thorough: k = 0..60, quick: k in {0,1,10,27,37,60}); "
        "Epoch.leap_seconds(y, m) for every month 1950..2100; Delta-T for "
        "every (year, month) -2000..3000 (band 1972..2018, joints after -500). "
        "Non-trivial = January/February, month of an insertion and the month "
        "after, 1972, last-day 23:59:59, k = 0, year after 2017; distinct by "
        "(date, time, k).")
ASSUMPTIONS = [
    "IERS insertion list 1972-06-30 .. 2016-12-31 (27 entries) in "
    "vpm/oracles/iers.py",
    "Delta-T segment joints after -500 are the NASA polynomial boundaries "
    "500,1600,1700,1800,1860,1900,1920,1941,1961,1986,2005,2050,2150",
]
EXHAUSTIVE = {"quick": False, "thorough": True}
TIMES = ((0, 0, 0.0), (12, 0, 0.0), (23, 59, 59.0))
JOINTS = (500, 1600, 1700, 1800, 1860, 1900, 1920, 1941, 1961, 1986, 2005,
          2050, 2150)


def anchors():
    from pymeeus.Epoch import Epoch
    return {"Epoch.leap_seconds": Epoch.leap_seconds,
            "Epoch._compute_jde": Epoch._compute_jde,
            "Epoch.get_date": Epoch.get_date,
            "Epoch.tt2ut": Epoch.tt2ut,
            "Epoch.get_last_leap_second": Epoch.get_last_leap_second}


POINTS = {
    "leap.before-table": ("Epoch.leap_seconds", "return 0"),
    "leap.after-table": ("Epoch.leap_seconds",
                         "return LEAP_TABLE[list_years[-1]]"),
    "leap.lookup": ("Epoch.leap_seconds", "idx += 1"),
    "jde.utc2tt": ("Epoch._compute_jde", "deltasec += Epoch.leap_seconds"),
    "jde.override": ("Epoch._compute_jde", "deltasec += leap_seconds"),
    "get_date.utc": ("Epoch.get_date", "deltasec += Epoch.leap_seconds"),
    "get_date.override": ("Epoch.get_date", "deltasec += leap_seconds"),
    "get_date.year-change": ("Epoch.get_date", "year -= 1"),
}
REQUIRED_POINTS = list(POINTS)
REQUIRED_CLAUSES = ["offset==iers", "offset.before-1972==0",
                    "readback.utc", "override.offset", "override.readback",
                    "leap_seconds==iers", "leap_seconds.monotone",
                    "last_leap_second", "deltat.band-1972-2018",
                    "deltat.joints", "deltat.smooth-between-joints"]


def shards(tier, seed):
    ks = list(range(0, 61)) if tier == "thorough" else [0, 1, 10, 27, 37, 60]
    # the override is documented as int or float: values between the whole
    # seconds too
    ks += [0.5, 12.5, 37.25]
    ys = list(range(1950, 2101))
    n = 16
    out = [{"name": "utc-%02d" % i, "part": "utc", "years": ys[i::n],
            "ks": ks} for i in range(n)]
    out.append({"name": "table", "part": "table"})
    out.append({"name": "deltat", "part": "deltat"})
    return out


def _civil_seconds(y, m, d, h, mi, s):
    """Seconds on a continuous civil axis (no leap seconds: civil labels)."""
    return (dc.jdn(y, m, d)) * 86400.0 + h * 3600.0 + mi * 60.0 + s


def _near_insertion(y, m, d, h):
    """Civil instant within the last minute before an insertion boundary or
    on the first day after."""
    return (y, m, d) in iers.INSERTIONS and h == 23


def key_offset(y, m, d, got, want):
    return None


def key_readback(y, m, d, t, err):
    """The read-back decides the leap-second count from the TT month: in the
    last TT-UTC seconds of a civil day that ends with an insertion the TT
    label is already in the next month and one second too many is removed."""
    to_midnight = 86400.0 - (t[0] * 3600.0 + t[1] * 60.0 + t[2])
    if (y, m, d) in iers.INSERTIONS \
            and to_midnight <= iers.tt_minus_utc(y, m, d) + 1.0 + 1e-3 \
            and abs(abs(err) - 1.0) < 2e-3:
        return "readback.last-seconds-before-insertion"
    return None


# beyond the three times of day of the grid: the last and first 70 s of a
# civil day (TT - UTC is at most 69.184 s, so the TT label of these instants
# lies in the neighbouring day, month or year) and one time of day that
# depends on the date
LATE = ((23, 58, 45.0), (23, 58, 52.9), (23, 59, 0.0), (23, 59, 10.5),
        (23, 59, 20.0), (23, 59, 27.0), (23, 59, 40.0), (23, 59, 59.9))
EARLY = ((0, 0, 0.5), (0, 0, 20.0), (0, 0, 33.0), (0, 1, 9.0), (0, 1, 10.5))


def times_of(y, m, d, last):
    h = (y * 373 + m * 31 + d * 7) % 86400
    out = TIMES + ((h // 3600, (h // 60) % 60, float(h % 60) + 0.25),)
    if d == last:
        out += LATE
    if d == 1:
        out += EARLY
    return out


def case_month(mon, y, m, ks):
    from pymeeus.Epoch import Epoch
    last = dc.month_len(y, m)
    for d in (1, 15, last):
        want = iers.tt_minus_utc(y, m, d)
        for t in times_of(y, m, d, last):
            mon.evals += 1
            ident = (y, m, d, t[0])
            if t not in TIMES:
                mon.cls("time-of-day-off-the-grid", (y, m, d, t))
            if m <= 2:
                mon.cls("january-february", ident,
                        [y, m, d, t] if (y % 25 == 0 and d == 1) else None)
            if (y, m, last) in iers.INSERTIONS:
                mon.cls("month-of-insertion", ident, [y, m, d, list(t)]
                        if d == last else None)
            pm = (y, m - 1) if m > 1 else (y - 1, 12)
            if (pm[0], pm[1], dc.month_len(*pm)) in iers.INSERTIONS:
                mon.cls("month-after-insertion", ident)
            if y == 1972:
                mon.cls("1972", ident)
            if y > 2017:
                mon.cls("after-table-end", ident)
            if d == last and t[0] == 23:
                mon.cls("last-day-23:59:59", ident)
            try:
                e_utc = Epoch(y, m, d, t[0], t[1], t[2], utc=True)
                e_tt = Epoch(y, m, d, t[0], t[1], t[2])
            except Exception as ex:
                mon.dev("offset==iers", {"date": [y, m, d, list(t)],
                                         "raised": repr(ex)})
                continue
            try:
                fj = {"Epoch(jde, utc=True)": Epoch(e_tt.jde(),
                                                    utc=True).jde(),
                      "Epoch(epoch, utc=True)": Epoch(e_tt, utc=True).jde()}
            except Exception as ex:
                fj = {"raised": repr(ex)}
            mon.check("utc.forms-agree",
                      all(isinstance(v, float) and abs(v - e_utc.jde())
                          <= 1e-9 for v in fj.values()),
                      lambda: {"date": [y, m, d, list(t)],
                               "from_fields": e_utc.jde(), "other_forms": fj})
            off = (e_utc.jde() - e_tt.jde()) * 86400.0
            clause = ("offset==iers" if (y, m, d) >= (1972, 1, 1)
                      else "offset.before-1972==0")
            mon.check(clause, abs(off - want) <= 1e-4,
                      lambda: {"date": [y, m, d, list(t)], "offset_s": off,
                               "iers_s": want},
                      lambda: key_offset(y, m, d, off, want))
            # the same civil instant plus a fraction of a second, given as
            # a datetime (microseconds) and as numbers, with and without
            # utc=True: the offset is the same and no sub-second part is lost
            try:
                import datetime as _dt
                us = 250000 + (d * 37 + m) * 100
                dtm = _dt.datetime(y, m, d, t[0], t[1], int(t[2]), us)
                sec = int(t[2]) + us / 1e6
                a_utc = Epoch(dtm, utc=True).jde()
                a_tt = Epoch(dtm).jde()
                n_utc = Epoch(y, m, d, t[0], t[1], sec, utc=True).jde()
                n_tt = Epoch(y, m, d, t[0], t[1], sec).jde()
                mon.evals += 1
                mon.check("datetime-form==numbers",
                          abs(a_utc - n_utc) <= 1e-9
                          and abs(a_tt - n_tt) <= 1e-9,
                          lambda: {"datetime": repr(dtm),
                                   "utc_datetime_minus_numbers_s":
                                   (a_utc - n_utc) * 86400.0,
                                   "tt_datetime_minus_numbers_s":
                                   (a_tt - n_tt) * 86400.0})
            except Exception as ex:
                mon.dev("datetime-form==numbers",
                        {"date": [y, m, d, list(t)], "raised": repr(ex)})
            # read back
            try:
                fy, fm, fd, fh, fmi, fs = e_utc.get_full_date(utc=True)
                back = _civil_seconds(fy, fm, fd, fh, fmi, fs)
                ranges = (0 <= fh <= 23 and 0 <= fmi <= 59 and 0 <= fs < 60)
            except Exception as ex:
                mon.dev("readback.utc", {"date": [y, m, d, list(t)],
                                         "raised": repr(ex)})
                continue
            err = back - _civil_seconds(y, m, d, *t)
            mon.stat("readback_err_s(not near insertion)", 0.0 if
                     key_readback(y, m, d, t, err) else abs(err),
                     [y, m, d, list(t)])
            mon.check("readback.utc", abs(err) <= 1.05e-3 and ranges,
                      lambda: {"civil": [y, m, d, list(t)],
                               "read_back": [fy, fm, fd, fh, fmi, fs],
                               "error_s": err},
                      lambda: key_readback(y, m, d, t, err))
            # explicit overrides
            for k in ks:
                mon.evals += 1
                if k == 0:
                    mon.cls("override-k=0", ident + (0,))
                try:
                    e_k = Epoch(y, m, d, t[0], t[1], t[2], leap_seconds=k)
                    offk = (e_k.jde() - e_tt.jde()) * 86400.0
                    by, bm, bd, bh, bmi, bs = \
                        e_k.get_full_date(leap_seconds=k)
                    backk = _civil_seconds(by, bm, bd, bh, bmi, bs)
                except Exception as ex:
                    mon.dev("override.offset",
                            {"date": [y, m, d, list(t)], "k": k,
                             "raised": repr(ex)})
                    continue
                wantk = (42.184 + k) if (y, m, d) >= (1972, 1, 1) else 0.0
                mon.check("override.offset", abs(offk - wantk) <= 1e-4,
                          lambda: {"date": [y, m, d, list(t)], "k": k,
                                   "offset_s": offk, "expected_s": wantk},
                          "override.k=0-means-no-conversion"
                          if (k == 0 and offk == 0.0) else None)
                # the override together with utc=True (either order), as a
                # tuple form and through set(): the explicit count still wins
                try:
                    forms = {
                        "utc=True, leap_seconds=k": Epoch(
                            y, m, d, t[0], t[1], t[2], utc=True,
                            leap_seconds=k).jde(),
                        "leap_seconds=k, utc=True": Epoch(
                            y, m, d, t[0], t[1], t[2], leap_seconds=k,
                            utc=True).jde(),
                        "tuple, leap_seconds=k": Epoch(
                            (y, m, d, t[0], t[1], t[2]),
                            leap_seconds=k).jde()}
                    e_s = Epoch(2451545.0)
                    e_s.set(y, m, d, t[0], t[1], t[2], leap_seconds=k)
                    forms["set(..., leap_seconds=k)"] = e_s.jde()
                    # the instant given as a JDE number or as another Epoch
                    forms["Epoch(jde, leap_seconds=k)"] = Epoch(
                        e_tt.jde(), leap_seconds=k).jde()
                    forms["Epoch(epoch, leap_seconds=k)"] = Epoch(
                        e_tt, leap_seconds=k).jde()
                    e_s2 = Epoch(2440000.5)
                    e_s2.set(e_tt.jde(), leap_seconds=k)
                    forms["set(jde, leap_seconds=k)"] = e_s2.jde()
                except Exception as ex:
                    forms = {"raised": repr(ex)}
                mon.check("override.forms-agree",
                          all(isinstance(v, float)
                              and abs(v - e_k.jde()) <= 1e-9
                              for v in forms.values()),
                          lambda: {"date": [y, m, d, list(t)], "k": k,
                                   "leap_seconds=k alone": e_k.jde(),
                                   "other_forms": forms})
                # reading back with both keywords, in either order, is
                # reading back with the explicit count
                try:
                    rb = {"leap_seconds=k": e_k.get_full_date(leap_seconds=k),
                          "utc=True, leap_seconds=k": e_k.get_full_date(
                              utc=True, leap_seconds=k),
                          "leap_seconds=k, utc=True": e_k.get_full_date(
                              leap_seconds=k, utc=True),
                          "get_date both orders": (
                              e_k.get_date(utc=True, leap_seconds=k)
                              == e_k.get_date(leap_seconds=k, utc=True)
                              == e_k.get_date(leap_seconds=k))}
                except Exception as ex:
                    rb = {"raised": repr(ex)}
                mon.check("override.forms-agree",
                          rb.get("get_date both orders") is True
                          and rb["leap_seconds=k"]
                          == rb["utc=True, leap_seconds=k"]
                          == rb["leap_seconds=k, utc=True"],
                          lambda: {"date": [y, m, d, list(t)], "k": k,
                                   "read_back_forms": repr(rb)[:400]})
                errk = backk - _civil_seconds(y, m, d, *t)
                mon.check("override.readback", abs(errk) <= 1.05e-3,
                          lambda: {"date": [y, m, d, list(t)], "k": k,
                                   "read_back": [by, bm, bd, bh, bmi, bs],
                                   "error_s": errk})


def case_table(mon):
    from pymeeus.Epoch import Epoch
    prev = None
    # asking for the last leap second (repeatedly) leaves the table as it was
    for _k in range(3):
        mon.evals += 1
        try:
            last = Epoch.get_last_leap_second()
        except Exception as ex:
            mon.dev("last_leap_second", {"call": _k, "raised": repr(ex)})
            continue
        mon.check("last_leap_second", tuple(last) == (2016, 12, 31.0, 27),
                  {"call": _k, "get_last_leap_second": list(last)})
    for y in range(1950, 2101):
        for m in range(1, 13):
            mon.evals += 1
            want = iers.count_before(y, m, 1)
            try:
                got = Epoch.leap_seconds(y, m)
            except Exception as ex:
                mon.dev("leap_seconds==iers", {"ym": [y, m],
                                               "raised": repr(ex)})
                continue
            if want != iers.count_before(y, m - 1 if m > 1 else 1, 1):
                mon.cls("table-step-month", ("table", y, m), [y, m, got])
            mon.check("leap_seconds==iers", got == want,
                      {"ym": [y, m], "leap_seconds": got, "iers": want})
            if prev is not None:
                mon.check("leap_seconds.monotone", got >= prev,
                          {"ym": [y, m], "leap_seconds": got,
                           "previous_month": prev})
            prev = got
    mon.evals += 1
    last = Epoch.get_last_leap_second()
    mon.check("last_leap_second", tuple(last) == (2016, 12, 31.0, 27),
              {"get_last_leap_second": list(last)})


def case_deltat(mon):
    from pymeeus.Epoch import Epoch
    table = {}
    for y in range(-2000, 3001):
        for m in range(1, 13):
            mon.evals += 1
            try:
                dt = Epoch.tt2ut(y, m)
            except Exception as ex:
                mon.dev("deltat.finite", {"ym": [y, m], "raised": repr(ex)})
                continue
            table[(y, m)] = dt
            mon.check("deltat.finite", isinstance(dt, float)
                      and dt == dt and abs(dt) < 1e6,
                      {"ym": [y, m], "deltat": dt})
            if 1972 <= y <= 2018:
                ref = 42.184 + iers.count_before(y, m, 1)
                mon.cls("deltat-1972-2018", ("dt", y, m))
                mon.stat("|deltat - (42.184+leap)| 1972-2018", abs(dt - ref),
                         [y, m])
                mon.check("deltat.band-1972-2018", abs(dt - ref) <= 3.5,
                          {"ym": [y, m], "deltat": dt, "42.184+leap": ref})
    # the joints are where the published list says and nowhere else: between
    # two published joints Delta-T is one smooth polynomial, so three
    # successive Januaries (Junes, Decembers) inside one segment have a second
    # difference below the 1 s allowed at a joint (0.41 s at most on the
    # unchanged tree, in the steep 1860-1900 polynomial); a joint
    # that has wandered off its year shows here with its full jump
    bounds = [-500] + list(JOINTS) + [3001]
    for lo, hi in zip(bounds, bounds[1:]):
        for y in range(lo + 1, hi - 1):
            for m in (1, 6, 12):
                if all((yy, m) in table for yy in (y - 1, y, y + 1)):
                    d2 = abs(table[(y + 1, m)] - 2.0 * table[(y, m)]
                             + table[(y - 1, m)])
                    mon.stat("deltat second difference inside a segment s",
                             d2, [y, m])
                    mon.check("deltat.smooth-between-joints", d2 < 1.0,
                              lambda: {"segment": [lo, hi], "year": y,
                                       "month": m, "values": [
                                           table[(y - 1, m)], table[(y, m)],
                                           table[(y + 1, m)]],
                                       "second_difference_s": d2})
    for j in JOINTS:
        mon.evals += 2
        a = Epoch.tt2ut(j - 1, 12)
        b = Epoch.tt2ut(j, 1)
        mon.cls("deltat-joint", ("joint", j), [j, a, b])
        mon.stat("deltat joint jump s", abs(b - a), j)
        mon.check("deltat.joints", abs(b - a) < 1.0,
                  {"joint_year": j, "before": a, "after": b})


def case_month_replay(mon, y, m, ks):
    case_month(mon, y, m, ks)


CASES = {"month": case_month, "table": case_table, "deltat": case_deltat}


def run(mon, spec):
    if not dc.self_check():
        raise RuntimeError("day counter self-check failed")
    if spec["part"] == "utc":
        # history: the rarely used query has been made before the conversions
        try:
            from pymeeus.Epoch import Epoch
            Epoch.get_last_leap_second()
            Epoch.get_last_leap_second()
        except Exception:
            pass
        for y in spec["years"]:
            for m in range(1, 13):
                mon.begin("month", [y, m, spec["ks"]])
                case_month(mon, y, m, spec["ks"])
    elif spec["part"] == "table":
        mon.begin("table", [])
        case_table(mon)
    else:
        mon.begin("deltat", [])
        case_deltat(mon)
