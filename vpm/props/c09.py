"""C09 - geocentric positions match the library's own heliocentric vectors."""
import importlib
import math
import random

from vpm import history
from vpm import seams
from vpm.oracles import sphere as sp
from vpm.oracles import twobody as tb

ID = "C09"
PLANETS = ["Mercury", "Venus", "Mars", "Jupiter", "Saturn", "Uranus",
           "Neptune"]
RULE = ("Seeded epochs: 7 planets x years -2000..4000 (uniform plus a set "
        "near conjunction/opposition found by scanning the library's own "
        "elongation), Pluto x 1885..2099, minor bodies with q log-uniform "
        "0.1..30 AU, e in {uniform [0, 0.98), 0.98 +- 1e-9, [0.98, 1), 1 - "
        "1e-12, 1.0}, i 0..180, any node/argument, t - T within +-50 yr with "
        "emphasis on +-60 d. Oracle: Earth and body vectors from the "
        "library's own heliocentric positions (planets, Pluto) or an "
        "independent universal-variable two-body propagator (minor bodies), "
        "light-time iterated to convergence in the monitor, turned "
        "equatorial with the library's true obliquity (planets) or the fixed "
        "J2000 obliquity (Pluto, minor bodies). Non-trivial = elongation "
        "within 5 deg of 0 or 180, minor body with e >= 0.98, |t - T| < 1 d; "
        "distinct by (body, epoch / orbit).")
ASSUMPTIONS = [
    "the Sun's J2000 vector is taken as the library gives it (its frame "
    "defect is reported once, under C08)",
    "a documented ValueError('No convergence') from the near-parabolic "
    "series is a refusal, not a verdict; more than half refused => "
    "inconclusive",
    "light-time constant 0.0057755183 day/AU",
]
EXHAUSTIVE = {"quick": False, "thorough": False}
J2000 = 2451545.0
LT = 0.0057755183


def anchors():
    from pymeeus.Minor import Minor
    from pymeeus.Pluto import Pluto
    from pymeeus.Venus import Venus
    return {"Minor.geocentric_position": Minor.geocentric_position,
            "Minor._near_parabolic": Minor._near_parabolic,
            "Pluto.geocentric_position": Pluto.geocentric_position,
            "Venus.geocentric_position": Venus.geocentric_position}


POINTS = {
    "minor.elliptic": ("Minor.geocentric_position",
                       "rr = a * (1.0 - e * cos(er))"),
    "minor.parabolic": ("Minor.geocentric_position",
                        "rr = q * (1.0 + s * s)"),
    "minor.near-parabolic": ("Minor.geocentric_position",
                             "v, rr = self._near_parabolic(t_peri)"),
    "near_parabolic.series": ("Minor._near_parabolic", "g1 = -g1 * g * y"),
    "near_parabolic.parabola": ("Minor._near_parabolic",
                                "if abs(e - 1.0) < d:"),
}
REQUIRED_POINTS = list(POINTS)
REQUIRED_CLAUSES = [history.CLAUSE, "planet.direction", "planet.elongation",
                    "planet.elongation-range", "epoch-not-shifted",
                    "pluto.direction", "minor.direction",
                    "minor.elongation", "minor.heliocentric"]


def shards(tier, seed):
    out = []
    n_p = 6000 if tier == "thorough" else 220
    per = 8 if tier == "thorough" else 2
    for p in PLANETS:
        for k in range(per):
            out.append({"name": "%s-%d" % (p, k), "part": "planet",
                        "planet": p, "n": n_p // per, "idx": k})
    n_pl = 60000 if tier == "thorough" else 2000
    n_m = 160000 if tier == "thorough" else 6000
    for k in range(4):
        out.append({"name": "pluto-%d" % k, "part": "pluto", "n": n_pl // 4,
                    "idx": k})
    for k in range(8):
        out.append({"name": "minor-%d" % k, "part": "minor", "n": n_m // 8,
                    "idx": k})
    return out


def jd_of_year(y):
    return J2000 + (y - 2000.0) * 365.25


def hvec(cls, jde, tofk5=False):
    # reference computations take their instants without the calendar
    # round trip of Epoch(<number>) (vpm/seams.py)
    L, B, R = cls.geometric_heliocentric_position(seams.raw_epoch(jde),
                                                  tofk5=tofk5)
    return tuple(R * c for c in sp.vec(L(), B()))


def sub(a, b):
    return (a[0] - b[0], a[1] - b[1], a[2] - b[2])


def case_planet(mon, planet, jde):
    from pymeeus.Epoch import Epoch
    from pymeeus.Earth import Earth
    from pymeeus.Sun import Sun
    from pymeeus import Coordinates as C
    from pymeeus.Angle import Angle
    cls = getattr(importlib.import_module("pymeeus." + planet), planet)
    mon.evals += 1
    e = Epoch(jde)
    jd = e.jde()
    case = {"planet": planet, "jde": jd}
    try:
        ra, dec, elon = cls.geocentric_position(e)
    except Exception as ex:
        mon.dev("planet.direction", dict(case, raised=repr(ex)))
        return
    mon.check("epoch-not-shifted", e.jde() == jd,
              dict(case, after=e.jde()))
    E = hvec(Earth, jd)
    tau = 0.0
    for _ in range(6):
        P = hvec(cls, jd - tau)
        d = sub(P, E)
        new = LT * sp.norm(d)
        if abs(new - tau) < 1e-12:
            tau = new
            break
        tau = new
    lo, la = sp.lonlat(d)
    eps = C.true_obliquity(seams.raw_epoch(jd))
    a0, d0 = C.ecliptical2equatorial(Angle(lo), Angle(la), eps)
    err = sp.sep_ll(ra(), dec(), a0(), d0())
    mon.stat("planet_direction_err_deg " + planet, err, case)
    mon.check("planet.direction", err <= 0.02,
              dict(case, library=[ra(), dec()], geometric=[a0(), d0()],
                   error_deg=err))
    # elongation: angle between the returned direction and the apparent Sun
    # at the caller's epoch
    ls, bs, rs = Sun.apparent_geocentric_position(seams.raw_epoch(jd))
    sa, sd = C.ecliptical2equatorial(ls, bs, eps)
    want = sp.sep_ll(ra(), dec(), sa(), sd())
    # the same with the Sun taken one light-time earlier (known mechanism)
    tau1 = LT * sp.norm(sub(hvec(cls, jd), E))
    ls2, bs2, _r = Sun.apparent_geocentric_position(
        seams.raw_epoch(jd - tau1))
    eps2 = C.true_obliquity(seams.raw_epoch(jd - tau1))
    sa2, sd2 = C.ecliptical2equatorial(ls2, bs2, eps2)
    want_shift = sp.sep_ll(ra(), dec(), sa2(), sd2())
    ident = (planet, jd)
    if want < 5.0 or want > 175.0:
        mon.cls("elongation-within-5deg-of-0/180", ident, dict(case,
                                                               elong=want))
    else:
        mon.cls("planet-epoch", ident)
    derr = abs(elon() - want)
    mon.stat("planet_elongation_err_deg " + planet, derr, case)
    key = None
    if abs(elon() - want_shift) <= 0.003 and derr <= 0.25:
        key = "elongation.sun-taken-one-light-time-earlier"
    mon.check("planet.elongation", derr <= 0.02,
              dict(case, library=elon(), expected=want,
                   expected_with_sun_at_t_minus_tau=want_shift), key)
    lim = {"Mercury": 28.5, "Venus": 48.0}.get(planet, 180.0)
    mon.check("planet.elongation-range", 0.0 <= elon() <= lim,
              dict(case, elongation=elon(), limit=lim))


def case_pluto(mon, jde):
    from pymeeus.Epoch import Epoch
    from pymeeus.Pluto import Pluto
    from pymeeus.Sun import Sun
    mon.evals += 1
    e = Epoch(jde)
    jd = e.jde()
    case = {"jde": jd}
    try:
        ra, dec = Pluto.geocentric_position(e)
    except ValueError as ex:
        # documented refusal, judged with the library's own year()
        # (the position one light-time earlier - at most 0.29 day for
        # Pluto - has to lie inside the range as well)
        if "outside the 1885-2099 range" in str(ex) and \
                not (1885.0 <= Epoch(jd - 0.29).year()
                     and e.year() <= 2099.0):
            mon.refusal("pluto:outside 1885-2099")
            return
        mon.dev("pluto.direction", dict(case, raised=repr(ex)))
        return
    except Exception as ex:
        mon.dev("pluto.direction", dict(case, raised=repr(ex)))
        return
    mon.check("epoch-not-shifted", e.jde() == jd, dict(case, after=e.jde()))
    xs = Sun.rectangular_coordinates_j2000(Epoch(jd))

    def pvec(t):
        L, B, R = Pluto.geometric_heliocentric_position(Epoch(t))
        return sp.rot_x(tuple(R * c for c in sp.vec(L(), B())),
                        tb.EPS_J2000)
    tau = 0.0
    for _ in range(6):
        g = tuple(a + b for a, b in zip(pvec(jd - tau), xs))
        new = LT * sp.norm(g)
        if abs(new - tau) < 1e-12:
            break
        tau = new
    lo, la = sp.lonlat(g)
    err = sp.sep_ll(ra(), dec(), lo, la)
    mon.cls("pluto-epoch", ("pluto", jd))
    mon.stat("pluto_direction_err_deg", err, case)
    mon.check("pluto.direction", err <= 1e-4 and 0.0 <= ra() < 360.0,
              dict(case, library=[ra(), dec()], expected=[lo, la],
                   error_deg=err))


_PRIOR = {"n": 0}
_EDGE = {"n": 0, "busy": False}


def refusal_edge(mon, q, e, inc, node, argp, T, jde_refused):
    """Bisects between a refused epoch and perihelion (always accepted) for
    the edge of the near-parabolic series' convergence and runs the usual
    case at a few instants just inside it."""
    from pymeeus.Epoch import Epoch
    from pymeeus.Minor import Minor
    from pymeeus.Angle import Angle
    m = Minor(q, e, Angle(inc), Angle(node), Angle(argp), Epoch(T))

    def accepted(j):
        try:
            m.geocentric_position(Epoch(j))
            return True
        except ValueError:
            return False
        except Exception:
            return True
    bad, good = jde_refused, Epoch(T).jde()
    if not accepted(good):
        return
    for _ in range(40):
        mid = 0.5 * (bad + good)
        if accepted(mid):
            good = mid
        else:
            bad = mid
        if abs(good - bad) < 2e-5:
            break
    sgn = 1.0 if good > bad else -1.0
    for d in (0.0, 1e-4, 1e-3, 3e-3, 6e-3, 0.02):
        j = good + sgn * d
        mon.begin("minor", [q, e, inc, node, argp, T, j])
        mon.cls("minor-at-the-edge-of-series-convergence",
                ("edge", q, e, T, j), [q, e, T, j])
        case_minor(mon, q, e, inc, node, argp, T, j)


def case_minor(mon, q, e, inc, node, argp, T, jde):
    from pymeeus.Epoch import Epoch
    from pymeeus.Minor import Minor
    from pymeeus.Angle import Angle
    from pymeeus.Sun import Sun
    mon.evals += 1
    ep = Epoch(jde)
    jd = ep.jde()
    Tj = Epoch(T).jde()
    case = {"q": q, "e": e, "i": inc, "node": node, "argp": argp, "T": T,
            "jde": jde}
    ident = ("minor", q, e, inc, node, argp, T, jde)
    if e >= 0.98:
        mon.cls("minor-e>=0.98", ident, case if e == 1.0 else None)
    if abs(jd - Tj) < 1.0:
        mon.cls("minor-|t-T|<1d", ident)
    if e < 0.98 and abs(jd - Tj) >= 1.0:
        mon.cls("minor-elliptic", ident)
    try:
        m = Minor(q, e, Angle(inc), Angle(node), Angle(argp), Epoch(T))
        ra, dec, psi = m.geocentric_position(ep)
    except ValueError as ex:
        if "No convergence" in str(ex) and 0.98 <= e < 1.0:
            mon.refusal("near-parabolic:No convergence")
            mon.hit("near-parabolic-refused")
            if _EDGE["n"] < 12 and not _EDGE["busy"]:
                # the last instants the series still accepts, next to this
                # refusal: answers there are judged like any other
                _EDGE["n"] += 1
                _EDGE["busy"] = True
                try:
                    refusal_edge(mon, q, e, inc, node, argp, T, jde)
                finally:
                    _EDGE["busy"] = False
            return
        mon.dev("minor.direction", dict(case, raised=repr(ex)))
        return
    except Exception as ex:
        mon.dev("minor.direction", dict(case, raised=repr(ex)))
        return
    if 0.98 <= e < 1.0:
        mon.hit("near-parabolic-answered")
    # the same orbit loaded with set() into an object that held another one
    # (and was used) must give the same answer
    try:
        # (the other orbit is elliptic, near-parabolic or parabolic in turn:
        # each kind takes its own branch and leaves its own state behind)
        _PRIOR["n"] += 1
        e_prior = (0.8502196, 0.99, 1.0, 0.985)[_PRIOR["n"] % 4]
        m2 = Minor(2.2091404 * (1 - 0.8502196), e_prior, Angle(11.94524),
                   Angle(334.75006), Angle(186.23352), Epoch(2448193.04502))
        m2.geocentric_position(Epoch(2448170.5))
        # ... and while that other object is alive and differently loaded,
        # the first one still answers as before
        r1 = m.geocentric_position(Epoch(jde))
        mon.check("minor.independent-of-other-instances",
                  r1[0]() == ra() and r1[1]() == dec() and r1[2]() == psi(),
                  lambda: dict(case, alone=[ra(), dec(), psi()],
                               with_another_instance=[r1[0](), r1[1](),
                                                      r1[2]()]))
        m2.set(q, e, Angle(inc), Angle(node), Angle(argp), Epoch(T))
        r2 = m2.geocentric_position(Epoch(jde))
        same = (r2[0]() == ra() and r2[1]() == dec() and r2[2]() == psi())
    except Exception as ex:
        same, r2 = False, repr(ex)
    mon.check("minor.set()-history-independent", same,
              lambda: dict(case, fresh=[ra(), dec(), psi()],
                           after_set=repr(r2)[:200]))
    mon.check("epoch-not-shifted", ep.jde() == jd, dict(case,
                                                        after=ep.jde()))
    xs = Sun.rectangular_coordinates_j2000(Epoch(jd))
    tau = 0.0
    for _ in range(8):
        body, _ecl = tb.position_equatorial_j2000(q, e, inc, node, argp,
                                                  jd - tau - Tj)
        g = tuple(a + b for a, b in zip(body, xs))
        new = LT * sp.norm(g)
        if abs(new - tau) < 1e-13:
            break
        tau = new
    lo, la = sp.lonlat(g)
    err = sp.sep_ll(ra(), dec(), lo, la)
    mon.stat("minor_direction_err_deg", err, case)
    mon.check("minor.direction", err <= 1e-4,
              dict(case, library=[ra(), dec()], expected=[lo, la],
                   error_deg=err, light_time_d=tau), key_minor(e, err))
    want = sp.sep(g, xs)
    mon.stat("minor_elongation_err_deg", abs(psi() - want), case)
    mon.check("minor.elongation", abs(psi() - want) <= 0.02
              and 0.0 <= psi() <= 180.0,
              dict(case, library=psi(), expected=want))
    if e < 0.98:
        try:
            hl, hb = m.heliocentric_ecliptical_position(ep)
        except Exception as ex:
            mon.dev("minor.heliocentric", dict(case, raised=repr(ex)))
            return
        _b, ecl = tb.position_equatorial_j2000(q, e, inc, node, argp, jd - Tj)
        l2, b2 = sp.lonlat(ecl)
        mon.check("minor.heliocentric", sp.sep_ll(hl(), hb(), l2, b2) <= 1e-4,
                  dict(case, library=[hl(), hb()], expected=[l2, b2]))


def key_minor(e, err):
    return None


CASES = {"history": history.case, "planet": case_planet, "pluto": case_pluto, "minor": case_minor}


def gen_minor(rng):
    q = 10.0 ** rng.uniform(-1, math.log10(30.0))
    r = rng.random()
    if r < 0.07:
        # nearly circular: the equation of the centre is 2 e sin M, first
        # order in e, so e = 1e-5 still moves the body by 0.001 degree
        e = 10.0 ** rng.uniform(-12, -2)
    elif r < 0.45:
        e = rng.uniform(0.0, 0.98)
    elif r < 0.55:
        e = rng.choice((0.98 - 1e-9, 0.98, 0.98 + 1e-9, 0.0, 0.5))
    elif r < 0.75:
        e = rng.uniform(0.98, 1.0)
    elif r < 0.85:
        e = 1.0 - 10.0 ** rng.uniform(-12, -2)
    else:
        e = 1.0
    inc = rng.choice((rng.uniform(0, 180), 0.0, 90.0, 180.0,
                      rng.uniform(0, 30)))
    T = jd_of_year(rng.uniform(1950, 2050))
    r = rng.random()
    if r < 0.5:
        dt = rng.uniform(-60, 60)
    elif r < 0.6:
        dt = rng.uniform(-1, 1)
    else:
        dt = rng.uniform(-50 * 365.25, 50 * 365.25)
    if e >= 0.98 and abs(dt) > 400 and rng.random() < 0.7:
        dt = rng.uniform(-400, 400)
    if e < 0.98 and rng.random() < 0.1:
        # a small mean anomaly (log-spaced 1e-6..1e-2 rad) whatever the
        # size of the orbit: days from perihelion for a small orbit, most of
        # a year for a large eccentric one
        if rng.random() < 0.6:
            e = rng.uniform(0.9, 0.98)
        M = rng.choice((-1, 1)) * 10.0 ** rng.uniform(-6, -2)
        n = 0.01720209895 / (q / (1.0 - e)) ** 1.5
        dt = max(-18000.0, min(18000.0, M / n))
    return [q, e, inc, rng.uniform(0, 360), rng.uniform(0, 360), T, T + dt]


def gen_later_return(rng):
    """A short-period near-parabolic ellipse (e 0.98..0.99, q 0.1..0.2 AU:
    period 11 to 50 years) asked about around one of its *other* perihelion
    passages inside the +-50 year window, one to four revolutions from the
    stated one.  The unchanged tree refuses these (the series is entered with
    the full time since the stated perihelion and does not converge, a
    documented ValueError); an answer, if one is given, is judged like any
    other against the two-body propagator."""
    q = rng.uniform(0.1, 0.2)
    e = rng.uniform(0.98, 0.99)
    a = q / (1.0 - e)
    P = 365.2568983263281 * a ** 1.5
    nmax = int(50 * 365.25 / P)
    if nmax < 1:
        return None
    n = rng.choice((-1, 1)) * rng.randrange(1, min(4, nmax) + 1)
    T = jd_of_year(rng.uniform(1950, 2050))
    dt = n * P + rng.choice((rng.uniform(-40, 40), rng.uniform(-5, 5)))
    return [q, e, rng.uniform(0, 180), rng.uniform(0, 360),
            rng.uniform(0, 360), T, T + dt]


def gen_close_approach(rng):
    """A minor body on an elliptic orbit that passes within 0.0003..0.002 AU
    of the Earth (the library's own Sun vector reversed) at the query epoch:
    the rarest part of the domain for a random orbit (about 1e-10 of the
    draws), where the light-time is under a second but the displacement it
    causes, v/c, is as large as anywhere."""
    from pymeeus.Epoch import Epoch
    from pymeeus.Sun import Sun

    def unit():
        while True:
            v = (rng.gauss(0, 1), rng.gauss(0, 1), rng.gauss(0, 1))
            n = sp.norm(v)
            if n > 1e-3:
                return tuple(c / n for c in v)
    for _ in range(50):
        t0 = jd_of_year(rng.uniform(1950, 2050))
        e0 = tuple(-c for c in Sun.rectangular_coordinates_j2000(Epoch(t0)))
        ea = tuple(-c for c in Sun.rectangular_coordinates_j2000(
            Epoch(t0 + 0.25)))
        eb = tuple(-c for c in Sun.rectangular_coordinates_j2000(
            Epoch(t0 - 0.25)))
        ve = tuple((a - b) / 0.5 for a, b in zip(ea, eb))
        d = rng.uniform(0.0003, 0.0018)
        r = tuple(a + d * u for a, u in zip(e0, unit()))
        dv = rng.uniform(0.003, 0.009)
        v = tuple(a + dv * u for a, u in zip(ve, unit()))
        el = tb.elements_from_state(r, v)
        if el is None or el[0] < 0.1:
            continue
        q, e, inc, node, argp, dt = el
        return [q, e, inc, node, argp, t0 - dt, t0 + rng.uniform(-0.01, 0.01)]
    return None


def near_syzygy_epochs(planet, rng, n):
    """Epochs near conjunction/opposition: scan the library's elongation on a
    coarse grid and keep the local extremes."""
    from pymeeus.Epoch import Epoch
    cls = getattr(importlib.import_module("pymeeus." + planet), planet)
    out = []
    tries = 0
    while len(out) < n and tries < 4 * n:
        tries += 1
        j0 = jd_of_year(rng.uniform(-1990, 3990))
        step = {"Mercury": 4, "Venus": 10, "Mars": 15}.get(planet, 8)
        prev2 = prev = None
        for k in range(60):
            j = j0 + k * step
            v = cls.geocentric_position(Epoch(j))[2]()
            if prev2 is not None and ((prev < prev2 and prev < v)
                                      or (prev > prev2 and prev > v)):
                if prev < 15.0 or prev > 165.0:
                    out.append(j - step)
                    break
            prev2, prev = prev, v
    return out


def origin_straddle_epochs(planet, rng, years):
    """Epochs at which the planet is within a few degrees of the Sun while the
    Sun is within a few degrees of the March equinox: the two apparent
    longitudes (and right ascensions) lie on either side of the 0/360 point,
    or both just after it.  Located with the library's own heliocentric
    vectors at the approximate instant of each year's March equinox."""
    from pymeeus.Earth import Earth
    cls = getattr(importlib.import_module("pymeeus." + planet), planet)
    out = []
    for y in years:
        j0 = 2451623.81 + 365.2422 * (y - 2000)
        E = hvec(Earth, j0)
        g = sub(hvec(cls, j0), E)
        sun = (-E[0], -E[1], -E[2])
        el = sp.sep(g, sun)
        if el < 6.0:
            for _ in range(4):
                out.append(j0 + rng.uniform(-3.0, 3.0))
    return out


def run(mon, spec):
    history.run_cases(mon, ID, spec)
    if not (sp.self_check() and tb.self_check()):
        raise RuntimeError("oracle self-check failed")
    rng = random.Random(hash((spec["seed"], spec["name"])) & 0xFFFFFFFF)
    if spec["part"] == "planet":
        p = spec["planet"]
        eps = [jd_of_year(rng.uniform(-2000, 4000))
               for _ in range(spec["n"])]
        nsyz = max(2, spec["n"] // 12) * (3 if p == "Mars" else 1)
        pcls = getattr(importlib.import_module("pymeeus." + p), p)
        from pymeeus.Epoch import Epoch as _E
        for j in near_syzygy_epochs(p, rng, nsyz):
            eps.append(j)
            # ... and the hours around the alignment itself: the coarse scan
            # stops within a step of it; it is located by a ternary search on
            # the library's own elongation, then walked in quarter days (for
            # an alignment close to the ecliptic the elongation passes
            # through 0 or 180 degrees within hours)
            step = {"Mercury": 4, "Venus": 10, "Mars": 15}.get(p, 8)
            try:
                f = lambda t: pcls.geocentric_position(_E(t))[2]()  # noqa
                sign = 1.0 if f(j) > 90.0 else -1.0
                lo, hi = j - step, j + step
                for _k in range(14):
                    m1, m2 = lo + (hi - lo) / 3.0, hi - (hi - lo) / 3.0
                    if sign * f(m1) < sign * f(m2):
                        lo = m1
                    else:
                        hi = m2
                jc = 0.5 * (lo + hi)
            except Exception:
                continue
            for k in range(-6, 7):
                eps.append(jc + 0.25 * k)
                mon.cls("hours-around-conjunction-or-opposition",
                        (p, jc, k))
        ny = 1200 if spec.get("tier") == "thorough" else 150
        strad = origin_straddle_epochs(
            p, rng, [rng.randrange(-1990, 3990) for _ in range(ny)])
        for j in strad:
            mon.cls("conjunction-at-the-march-equinox", (p, j), [p, j])
        eps += strad
        # instants at and shortly after calendar seams: the light-time step
        # (epoch -= tau) lands on the other side of the seam
        for lab, j in seams.seam_jdes(rng, 24 if spec.get("tier") ==
                                      "thorough" else 8):
            if jd_of_year(-2000.0) < j < jd_of_year(4000.0):
                mon.cls("calendar-seam", (p, j), [p, lab, j])
                eps.append(j)
        if spec["idx"] == 0 or spec.get("tier") == "thorough":
            for lab, j in seams.just_after_boundaries(rng):
                mon.cls("calendar-seam", (p, j), [p, lab, j])
                eps.append(j)
        if spec["idx"] == 0:
            eps += [jd_of_year(-2000.0), jd_of_year(4000.0), J2000,
                    2448976.5]
        for j in eps:
            mon.begin("planet", [p, j])
            case_planet(mon, p, j)
    elif spec["part"] == "pluto":
        for _ in range(spec["n"]):
            # (jd_of_year counts Julian years from J2000: its 1885.0 lies in
            # December 1884 of the calendar the library's year() uses)
            j = jd_of_year(rng.uniform(1885.01, 2098.99))
            mon.begin("pluto", [j])
            case_pluto(mon, j)
        if spec["idx"] == 0:
            # both ends of the documented range in twentieths of a day: the
            # first and the last instants that must be answered
            from pymeeus.Epoch import Epoch as _E
            lo, hi = _E(1885, 1, 1.0).jde(), _E(2099, 1, 1.0).jde()
            for k in range(-20, 81):
                for j in (lo + 0.05 * k, hi - 0.05 * k):
                    mon.begin("pluto", [j])
                    mon.cls("pluto-range-end", ("pluto-end", j))
                    case_pluto(mon, j)
    else:
        if spec["idx"] == 0:
            # Meeus' examples: Encke (elliptic) and a parabolic comet
            a, e = 2.2091404, 0.8502196
            T = 2448193.04502
            for p in ([a * (1 - e), e, 11.94524, 334.75006, 186.23352, T,
                       2448170.5],
                      [1.487469, 1.0, 104.668, 222.103, 1.146, 2450917.9358,
                       2450920.5],
                      [0.921326, 1.0, 42.0, 10.0, 20.0, 2447777.0,
                       2447777.0]):
                mon.begin("minor", p)
                case_minor(mon, *p)
        for _ in range(spec["n"]):
            p = gen_minor(rng)
            mon.begin("minor", p)
            case_minor(mon, *p)
        for _ in range(max(12, spec["n"] // 40)):
            p = gen_close_approach(rng)
            if p is not None:
                mon.begin("minor", p)
                case_minor(mon, *p)
                mon.cls("minor-within-0.002AU-of-the-Earth", tuple(p), p)
        ans = mon.contracts.get("near-parabolic-answered", 0)
        ref = mon.contracts.get("near-parabolic-refused", 0)
        if ref > ans:
            mon.error("near-parabolic generator",
                      RuntimeError("%d of %d near-parabolic cases refused"
                                   % (ref, ref + ans)))
        # (after the ratio above: these are refused on the unchanged tree)
        for _ in range(max(40, spec["n"] // 8)):
            p = gen_later_return(rng)
            if p is not None:
                mon.begin("minor", p)
                case_minor(mon, *p)
                mon.cls("near-parabolic-around-a-later-perihelion",
                        tuple(p), p)
