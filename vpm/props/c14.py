"""C14 - seasons, equation of time and sunrise/sunset agree with the solar
position."""
import math
import random

from vpm import history
from vpm.mon import rt

ID = "C14"
RULE = ("Seasons: every year -1000..3000 x 4 seasons, complete in both tiers "
        "(exhaustive for that clause), plus refusal probes. Equation of "
        "time: event log of daily values over whole years (quick: 12 years "
        "spread over -2000..4000 incl. 1582 and 2000; thorough: 300 years), "
        "checked offline for range and day-to-day change. Sunrise/sunset: "
        "seeded (date 1900..2100, latitude +-66.5 incl. the limits, "
        "longitude +-180, height 0..5000 m, solstices and equinoxes "
        "over-sampled); the Sun's altitude at the returned instants from the "
        "library's own apparent position, true obliquity, apparent sidereal "
        "time and equatorial2horizontal. General rise/transit/set: synthetic "
        "bodies moving up to 1.5 deg/day, altitude and hour angle recomputed "
        "at the returned times from the interpolated coordinates. "
        "Non-trivial = day within 3 d of the March equinox, |lat| > 60, date "
        "within 10 d of a solstice, grazing rise, year at a table boundary; "
        "distinct by inputs.")
ASSUMPTIONS = [
    "Epoch.rise_set() results are UTC (as documented): used as UT for the "
    "sidereal time and as TT for the solar position (the 70 s difference "
    "moves the Sun by 0.0008 deg)",
    "local transit = the instant of zero hour angle found by bisection on "
    "the same chain",
    "equation of time: signed seconds rebuilt from (minutes, seconds) as "
    "sign(m) (|m| 60 + s); when m == 0 the sign cannot be recovered from the "
    "return value, both are tried and the one closer to the previous day is "
    "used",
    "general routine: grazing = |dh/dt| at the true event (semi-arc H0 of "
    "the middle declination) below sin(15 deg) of the diurnal rate (two iterations of the routine do not reach 0.005 deg closer to grazing than that); a refusal (None, None, None) is required iff |cos H0| > 1 "
    "for the middle declination",
]
EXHAUSTIVE = {"quick": False, "thorough": False}
J2000 = 2451545.0
SEASONS = ["spring", "summer", "autumn", "winter"]


def anchors():
    from pymeeus.Sun import Sun
    from pymeeus.Epoch import Epoch
    from pymeeus import Coordinates as C
    return {"Sun.get_equinox_solstice": Sun.get_equinox_solstice,
            "Sun.equation_of_time": Sun.equation_of_time,
            "Epoch.rise_set": Epoch.rise_set,
            "times_rise_transit_set": C.times_rise_transit_set}


POINTS = {
    "seasons.table-A": ("Sun.get_equinox_solstice", "y = year / 1000.0"),
    "seasons.table-B": ("Sun.get_equinox_solstice",
                        "y = (year - 2000.0) / 1000.0"),
    "seasons.range-raise": ("Sun.get_equinox_solstice",
                            "raise ValueError(\"'year' value out of range\")"),
    "rts.circumpolar": ("times_rise_transit_set",
                        "return (None, None, None)"),
}
REQUIRED_POINTS = list(POINTS)
REQUIRED_CLAUSES = [history.CLAUSE, "season.longitude",
                    "season.longitude(independent-nutation)", "season.order-and-gaps",
                    "season.year-length", "season.refuses-other-years",
                    "season.in-requested-year", "sunrise.on-requested-day",
                    "season.same-answer-when-asked-again",
                    "eot.range", "eot.daily-change", "sunrise.altitude",
                    "sunrise.order", "rts.altitude", "rts.transit",
                    "rts.none-iff-never-crosses"]


def shards(tier, seed):
    out = []
    ys = list(range(-1000, 3001))
    for i in range(16):
        out.append({"name": "seasons-%02d" % i, "part": "seasons",
                    "lo": -1000 + i * 251, "hi": min(3000, -1000 + (i + 1)
                                                      * 251 - 1),
                    "n_mix": 40 if tier == "thorough" else 4, "idx": i})
    rng = random.Random(seed)
    if tier == "thorough":
        years = sorted(set([1582, 2000, -2000, 4000] + [
            rng.randrange(-2000, 4001) for _ in range(296)]))
    else:
        years = sorted(set([1582, 2000, -2000, 4000, 1800, 2200] + [
            rng.randrange(-2000, 4001) for _ in range(6)]))
    n = 16
    for i in range(n):
        ch = years[i::n]
        if ch:
            out.append({"name": "eot-%02d" % i, "part": "eot", "years": ch})
    mult = 50 if tier == "thorough" else 1
    for i in range(16):
        out.append({"name": "rise-%02d" % i, "part": "rise", "idx": i,
                    "n_sun": 260 * mult, "n_rts": 1300 * mult,
                    # POSIX TZ strings (no tz database needed)
                    "tz": ("UTC0", "JST-9", "EST5", "NZST-12",
                           "IST-5:30")[i % 5]})
    return out


def jd_of_year(y):
    return J2000 + (y - 2000.0) * 365.25


def wrap(d):
    return (d + 180.0) % 360.0 - 180.0


# ------------------------------------------------------------------ seasons
SEASON_2000 = (2451623.81, 2451716.57, 2451810.22, 2451900.06)


def independent_longitude(mon, y, k, s, e):
    """The Sun's apparent longitude at the returned instant with the nutation
    taken from the monitor's own IAU 1980 series (vpm/oracles/nutation.py)
    instead of the library's: Earth's geometric FK5 longitude + 180 degrees
    + Delta psi - 20.4898"/R.  A finder that iterates on the library's own
    apparent longitude agrees with itself whatever the nutation routine
    returns; the property is about the Sun."""
    from pymeeus.Earth import Earth
    from vpm.oracles import nutation as N
    try:
        L, _b, R = Earth.geometric_heliocentric_position(e, tofk5=True)
        dpsi, _de = N.nutation(e.jde())
        lon = L() + 180.0 + dpsi / 3600.0 - 20.4898 / 3600.0 / R
    except Exception as ex:
        mon.dev("season.longitude(independent-nutation)",
                {"year": y, "season": s, "raised": repr(ex)})
        return
    err = abs(wrap(lon - 90.0 * k))
    mon.stat("season_longitude_err_deg(independent nutation)", err, [y, s])
    mon.check("season.longitude(independent-nutation)", err <= 1e-5,
              lambda: {"year": y, "season": s, "jde": e.jde(),
                       "sun_longitude_with_iau1980_nutation": lon})


def option_order(mon, y, k, s, e):
    """The same instant read without nutation, with it, and without it again,
    back to back: the reading with nutation still sits on the season's
    longitude, and the two without it are the same number (an answer kept
    from the previous call under the epoch alone shows here)."""
    from pymeeus.Sun import Sun
    try:
        l0 = Sun.apparent_geocentric_position(e, nutation=False)[0]()
        l1 = Sun.apparent_geocentric_position(e)[0]()
        l2 = Sun.apparent_geocentric_position(e, nutation=False)[0]()
        l3 = Sun.apparent_geocentric_position(e, nutation=True)[0]()
        from vpm.oracles import nutation as N
        dpsi = N.nutation(e.jde())[0] / 3600.0
    except Exception as ex:
        mon.dev("season.longitude(after-other-option)",
                {"year": y, "season": s, "raised": repr(ex)})
        return
    mon.cls("season-read-in-both-nutation-options", ("opt", y, k))
    mon.check("season.longitude(after-other-option)",
              abs(wrap(l1 - 90.0 * k)) <= 1e-5 and l3 == l1 and l2 == l0
              and abs(wrap(l1 - l0) - dpsi) <= 5e-6,
              lambda: {"year": y, "season": s, "jde": e.jde(),
                       "nutation=False": l0, "default": l1,
                       "nutation=False again": l2, "nutation=True": l3,
                       "iau1980_nutation_deg": dpsi})


def in_year(mon, y, k, s, jde):
    """The instant belongs to the year that was asked for: within 5 days of
    the season's date in 2000 moved by mean tropical years (the slow change
    of the year's length and of the seasons' lengths shifts it by < 2 days
    over -1000..3000)."""
    want = SEASON_2000[k] + 365.2422 * (y - 2000)
    mon.check("season.in-requested-year", abs(jde - want) <= 5.0,
              {"year": y, "season": s, "jde": jde,
               "expected_within_5d_of": want})


def case_season_mix(mon, y, sv):
    """Seasons asked for in a hostile order: the year, the years 1000 and
    2000 away from it, neighbours, and the year again."""
    from pymeeus.Sun import Sun
    rng = random.Random(sv)
    ys = [y] + [v for v in (y + 2000, y - 2000, y + 1000, y - 1000, y + 1,
                            y + rng.randrange(-3000, 3000))
                if -1000 <= v <= 3000]
    rng.shuffle(ys)
    ys = [y] + ys + [y]
    first = {}
    for v in ys:
        for k, s in enumerate(SEASONS):
            mon.evals += 1
            try:
                e = Sun.get_equinox_solstice(v, rt(s))
                lon = Sun.apparent_geocentric_position(e)[0]()
            except Exception as ex:
                mon.dev("season.longitude", {"year": v, "season": s,
                                             "asked_in_order": ys,
                                             "raised": repr(ex)})
                continue
            in_year(mon, v, k, s, e.jde())
            mon.check("season.longitude", abs(wrap(lon - 90.0 * k)) <= 1e-5,
                      {"year": v, "season": s, "jde": e.jde(),
                       "sun_longitude": lon, "asked_in_order": ys})
            if (v, k) in first:
                mon.check("season.same-answer-when-asked-again",
                          first[(v, k)] == e.jde(),
                          {"year": v, "season": s, "first": first[(v, k)],
                           "again": e.jde(), "asked_in_order": ys})
            first[(v, k)] = e.jde()
    mon.cls("season-hostile-order", ("mix", y, sv), ys)


def case_seasons(mon, lo, hi):
    """Years lo..hi: the four instants of each year (event log) and the
    offline order / gap / year-length checks."""
    from pymeeus.Sun import Sun
    prev = None
    for y in range(lo - 1, hi + 1):
        if y < -1000:
            continue
        ts = []
        for k, s in enumerate(SEASONS):
            mon.evals += 1
            try:
                e = Sun.get_equinox_solstice(y, rt(s))
                lon = Sun.apparent_geocentric_position(e)[0]()
            except Exception as ex:
                mon.dev("season.longitude", {"year": y, "season": s,
                                             "raised": repr(ex)})
                ts.append(None)
                continue
            ts.append(e.jde())
            if y >= lo:
                in_year(mon, y, k, s, e.jde())
                err = abs(wrap(lon - 90.0 * k))
                mon.stat("season_longitude_err_deg", err, [y, s])
                mon.check("season.longitude", err <= 1e-5,
                          {"year": y, "season": s, "jde": e.jde(),
                           "sun_longitude": lon})
                independent_longitude(mon, y, k, s, e)
                option_order(mon, y, k, s, e)
                if y in (-1000, 999, 1000, 3000):
                    mon.cls("year-at-table-boundary", ("season", y, s),
                            [y, s, e.jde()])
                else:
                    mon.cls("season", ("season", y, s))
        if None not in ts and y >= lo:
            gaps = [b - a for a, b in zip(ts, ts[1:])]
            mon.check("season.order-and-gaps",
                      all(88.0 <= g <= 95.0 for g in gaps),
                      {"year": y, "instants": ts, "gaps": gaps})
        if prev is not None and None not in ts and None not in prev \
                and y >= lo:
            dy = [b - a for a, b in zip(prev, ts)]
            mon.check("season.year-length",
                      all(365.2 <= d <= 365.3 for d in dy),
                      {"year": y, "same_season_spacing": dy})
        prev = ts


def case_season_refusals(mon):
    from pymeeus.Sun import Sun
    # (ints have no upper limit: a year beyond the range of a float is
    # still "another year")
    for y in (-1001, 3001, -10000, 10000, -2000, 4000, 10 ** 18, -10 ** 30,
              10 ** 309, -10 ** 400):
        for s in ("spring", "winter"):
            mon.evals += 1
            mon.cls("season-refusal-probe", ("refuse", y, s),
                    [y if abs(y) < 10 ** 18 else "%s10**%d" % (
                        "-" if y < 0 else "", len(str(abs(y))) - 1), s])
            try:
                r = Sun.get_equinox_solstice(y, rt(s))
            except ValueError:
                mon.ok("season.refuses-other-years")
                continue
            except Exception as ex:
                mon.dev("season.refuses-other-years",
                        {"year": y, "raised": repr(ex)})
                continue
            mon.dev("season.refuses-other-years",
                    {"year": y, "returned": repr(r)})
    # the four season names are a closed set
    for t in ("", "s", "spr", "Spring", "SUMMER", "autum", "fall", "winter ",
              "springsummer", "summerautumn", "er", "n"):
        mon.evals += 1
        try:
            r = Sun.get_equinox_solstice(2000, t)
        except ValueError:
            mon.ok("season.refuses-other-years")
            continue
        except Exception as ex:
            mon.dev("season.refuses-other-years",
                    {"year": 2000, "target": t, "raised": repr(ex)})
            continue
        mon.dev("season.refuses-other-years",
                {"year": 2000, "target": t, "returned": repr(r)})
    for y in (2000.5, 1999.0):
        mon.evals += 1
        try:
            r = Sun.get_equinox_solstice(y, "spring")
        except (ValueError, TypeError):
            mon.ok("season.refuses-other-years")
            continue
        except Exception as ex:
            mon.dev("season.refuses-other-years",
                    {"year": y, "raised": repr(ex)})
            continue
        mon.dev("season.refuses-other-years",
                {"year": y, "returned": repr(r)})


# --------------------------------------------------------- equation of time
def case_eot_year(mon, y):
    from pymeeus.Epoch import Epoch
    from pymeeus.Sun import Sun
    j0 = float(int(jd_of_year(y))) + 0.5
    lim = 17.5 * 60 if 1800 <= y <= 2200 else 25 * 60
    prev = None
    pprev = None
    pm = None
    ncross = 0
    eq = None
    try:
        if -1000 <= y <= 3000:
            eq = Sun.get_equinox_solstice(int(y), "spring").jde()
    except Exception:
        eq = None
    for d in range(0, 367):
        mon.evals += 1
        jd = j0 + d
        try:
            m, s = Sun.equation_of_time(Epoch(jd))
        except Exception as ex:
            mon.dev("eot.range", {"jde": jd, "raised": repr(ex)})
            prev = pprev = pm = None
            continue
        if eq is not None and abs(jd - eq) <= 3.0:
            mon.cls("within-3d-of-march-equinox", ("eot", jd), [jd, m, s])
        else:
            mon.cls("eot-day", ("eot", jd))
        ok_types = isinstance(m, int) and isinstance(s, float) \
            and 0.0 <= s < 60.0
        if m != 0:
            val = math.copysign(abs(m) * 60.0 + s, m)
        elif prev is None:
            # sign not recoverable and nothing to compare with: skip the day
            pprev = pm = None
            continue
        else:
            pred = prev if pprev is None else 2.0 * prev - pprev
            val = s if abs(s - pred) <= abs(-s - pred) else -s
        mon.stat("eot_abs_seconds", abs(val), [jd, m, s])
        mon.check("eot.range", ok_types and abs(val) <= lim,
                  {"jde": jd, "year": y, "eot": [m, s], "limit_s": lim})
        if prev is not None:
            mon.stat("eot_daily_change_s", abs(val - prev), [jd, m, s])
            mon.check("eot.daily-change", abs(val - prev) < 45.0,
                      {"jde": jd, "eot_s": val, "previous_day_s": prev})
        if prev is not None and m != 0 and pm not in (None, 0) and m != pm \
                and ncross < 6:
            ncross += 1
            minute_crossing(mon, jd - 1.0, pm, jd, m)
        pprev, prev, pm = prev, val, m


def minute_crossing(mon, ja, ma, jb, mb):
    """The equation of time comes as (whole minutes, seconds): where the
    whole minutes change, the value itself must not jump.  The instant of the
    change is bisected down to adjacent floats on the library's own minutes
    field, and the value is compared across it and a few floats either way."""
    from pymeeus.Epoch import Epoch
    from pymeeus.Sun import Sun

    def ev(j):
        mm, ss = Sun.equation_of_time(Epoch(j))
        return mm, (math.copysign(abs(mm) * 60.0 + ss, mm) if mm != 0
                    else None)
    lo, hi = ja, jb
    try:
        for _ in range(70):
            mid = 0.5 * (lo + hi)
            if mid <= lo or mid >= hi:
                break
            mm, _v = ev(mid)
            if mm == ma:
                lo = mid
            elif mm == mb:
                hi = mid
            else:
                # more than one whole minute changes in this day: narrow to
                # the first change
                hi, mb = mid, mm
        pts = [lo, hi]
        for k in (1, 3, 10, 40):
            a, b = lo, hi
            for _ in range(k):
                a = math.nextafter(a, 0.0)
                b = math.nextafter(b, 1e9)
            pts += [a, b]
        vals = [(j, ev(j)[1]) for j in sorted(pts)]
    except Exception as ex:
        mon.dev("eot.continuous-at-minute-crossing",
                {"between": [ja, jb], "raised": repr(ex)})
        return
    mon.evals += len(vals)
    mon.cls("eot-whole-minute-crossing", ("cross", lo, hi), [lo, hi, ma, mb])
    good = [v for _j, v in vals if v is not None]
    mon.check("eot.continuous-at-minute-crossing",
              len(good) >= 2 and max(good) - min(good) <= 0.01,
              {"adjacent_floats_at_the_change": [lo, hi],
               "minutes_before_after": [ma, mb],
               "values_s": vals[:10]})


# ------------------------------------------------------------- sunrise/set
def sun_alt_ha(jd_ut, lat, lon_east):
    """Altitude and hour angle (deg) of the Sun's centre at UT instant."""
    from pymeeus.Epoch import Epoch
    from pymeeus.Sun import Sun
    from pymeeus.Angle import Angle
    from pymeeus import Coordinates as C
    from vpm import seams
    t = seams.raw_epoch(jd_ut)      # exactly this instant (vpm/seams.py)
    lo, la, r = Sun.apparent_geocentric_position(t)
    eps = C.true_obliquity(t)
    ra, dec = C.ecliptical2equatorial(lo, la, eps)
    st = t.apparent_sidereal_time(eps, C.nutation_longitude(t)) * 360.0
    H = Angle(st + lon_east - ra())
    az, alt = C.equatorial2horizontal(H, dec, Angle(lat))
    return alt(), wrap(H())


def key_sunrise(y, m, d, lat, err):
    """The sunrise equation's orbital constants are frozen at J2000: the
    altitude error at the returned instants grows with |year - 2000| (about
    0.011 deg/yr at the equinoxes), is largest near the equinoxes and above
    25 deg latitude.  Calibrated on 1.2e5 cases of the unchanged tree: never
    above 1.0 deg for |year - 2000| < 70, at most 1.113 deg overall."""
    doy = (m - 1) * 30.4 + d
    deq = min(abs(doy - 79), abs(doy - 265))
    if abs(y - 2000) >= 70 and abs(lat) >= 25.0 and deq <= 50 \
            and 1.0 < err <= 1.5:
        return "sunrise.frozen-constants-high-latitude-equinox"
    return None


def case_sunrise(mon, y, m, d, lat, lon, h):
    from pymeeus.Epoch import Epoch
    from pymeeus.Angle import Angle
    mon.evals += 1
    e = Epoch(y, m, d)
    case = {"date": [y, m, d], "lat": lat, "lon_east": lon, "height_m": h}
    ident = ("sun", y, m, d, lat, lon, h)
    if d != int(d):
        mon.cls("epoch-with-time-of-day", ident, case)
    if isinstance(h, int) and h > 0:
        mon.cls("height-given-as-int", ident, case)
    if abs(lat) > 60.0:
        mon.cls("|lat|>60", ident, case if abs(lat) == 66.5 else None)
    if (m in (6, 12)) and 11 <= d <= 31:
        mon.cls("within-10d-of-solstice", ident)
    if abs(lat) <= 60 and not ((m in (6, 12)) and 11 <= d <= 31):
        mon.cls("sunrise-generic", ident)
    target = -0.83 - 2.076 * math.sqrt(h) / 60.0
    try:
        r, s = e.rise_set(Angle(lat), Angle(lon), h)
    except ValueError as ex:
        # acos domain: the Sun does not reach the standard altitude that
        # day.  Accepted only if the monitor's own scan agrees.
        if "math domain" in str(ex):
            j0 = Epoch(y, m, int(d)).jde()
            alts = [sun_alt_ha(j0 + k / 48.0 - lon / 360.0, lat, lon)[0]
                    for k in range(0, 49)]
            # "never crosses" is judged with the 1 deg accuracy the property
            # grants the sunrise equation
            never = all(a > target - 1.0 for a in alts) or \
                all(a < target + 1.0 for a in alts)
            mon.refusal("sunrise:no-crossing-that-day")
            mon.check("sunrise.refusal-justified", never,
                      dict(case, raised=repr(ex), min_alt=min(alts),
                           max_alt=max(alts), target=target))
            return
        mon.dev("sunrise.altitude", dict(case, raised=repr(ex)))
        return
    except Exception as ex:
        mon.dev("sunrise.altitude", dict(case, raised=repr(ex)))
        return
    worst = 0.0
    for t in (r, s):
        alt, H = sun_alt_ha(t.jde(), lat, lon)
        worst = max(worst, abs(alt - target))
    mon.stat("sunrise_altitude_err_deg", worst, case)
    mon.check("sunrise.altitude", worst <= 1.0,
              dict(case, rise=r.jde(), set=s.jde(), error_deg=worst,
                   target=target), key_sunrise(y, m, d, lat, worst))
    # local transit: H = 0 between rise and set
    a, b = r.jde(), s.jde()
    ha, hb = sun_alt_ha(a, lat, lon)[1], sun_alt_ha(b, lat, lon)[1]
    # near the polar circle at the solstice the day is almost 24 h long and
    # both hour angles are near +-180: take the rising in (-270, 90] and the
    # setting in [-90, 270) before comparing
    if ha > 90.0:
        ha -= 360.0
    if hb < -90.0:
        hb += 360.0
    ok = a < b and ha < 0.0 < hb and (b - a) < 1.0
    mon.check("sunrise.order", ok,
              dict(case, rise=a, set=b, hour_angle_at_rise=ha,
                   hour_angle_at_set=hb))
    mon.check("epoch-unchanged", e.jde() == Epoch(y, m, d).jde(), case)
    # ... and they belong to the date that was asked for: either side of that
    # date's local transit (mean noon at the longitude, +-17 min), which the
    # day counter gives without the library's calendar
    from vpm.oracles import daycount as dc
    tr = dc.jdn(y, m, int(d)) - 0.5 + 0.5 - lon / 360.0
    mon.check("sunrise.on-requested-day",
              tr - 0.62 <= a <= tr + 0.02 and tr - 0.02 <= b <= tr + 0.62,
              dict(case, rise=a, set=b, mean_local_noon_of_date=tr))


# ----------------------------------------------------- rise / transit / set
def interp(n, y1, y2, y3):
    a = wrap(y2 - y1)
    b = wrap(y3 - y2)
    c = b - a
    return y2 + n * (a + b + n * c) / 2.0


def case_rts(mon, lonw, lat, a2, d2, da, dd, h0, delta_t, theta0,
             cur=None, curd=0.0):
    """Synthetic body: right ascension a2 + da*n (+ curvature cur, 2 % of
    da unless given), declination d2 + dd*n (+ curd), n in days from the
    middle date.  da = dd = 0 with a curvature is a body at its stationary
    point: the same place the day before and the day after, another one on
    the day itself."""
    from pymeeus import Coordinates as C
    from pymeeus.Angle import Angle
    mon.evals += 1
    if cur is None:
        cur = 0.02 * da
    al = [a2 - da + cur, a2, a2 + da + cur]
    de = [d2 - dd + curd, d2, d2 + dd + curd]
    de = [max(-89.9, min(89.9, v)) for v in de]
    case = {"lon_west": lonw, "lat": lat, "alpha": al, "delta": de, "h0": h0,
            "delta_t": delta_t, "theta0": theta0}
    ident = ("rts", lonw, lat, a2, d2, da, dd, h0, theta0)
    A = Angle
    try:
        res = C.times_rise_transit_set(A(lonw), A(lat), A(al[0]), A(de[0]),
                                       A(al[1]), A(de[1]), A(al[2]),
                                       A(de[2]), A(h0), delta_t, A(theta0))
    except Exception as ex:
        mon.dev("rts.altitude", dict(case, raised=repr(ex)))
        return
    cosH0 = ((math.sin(math.radians(h0)) - math.sin(math.radians(lat))
              * math.sin(math.radians(de[1])))
             / (math.cos(math.radians(lat)) * math.cos(math.radians(de[1]))))
    never = abs(cosH0) > 1.0
    is_none = (res == (None, None, None))
    if abs(abs(cosH0) - 1.0) > 1e-9:
        mon.check("rts.none-iff-never-crosses", never == is_none,
                  dict(case, cos_H0=cosH0, returned=list(res)))
    if is_none:
        mon.cls("never-crosses-altitude", ident, case if abs(cosH0) < 1.05
                else None)
        return
    if never:
        return
    rise, transit, sett = (v / 24.0 for v in res)

    def at(mfrac):
        n = mfrac + delta_t / 86400.0
        alpha = interp(n, *al)
        delta = interp(n, *de)
        theta = theta0 + 360.985647 * mfrac
        H = wrap(theta - lonw - alpha)
        alt = math.degrees(math.asin(
            math.sin(math.radians(lat)) * math.sin(math.radians(delta))
            + math.cos(math.radians(lat)) * math.cos(math.radians(delta))
            * math.cos(math.radians(H))))
        return alt, H, delta
    ar, Hr, dr = at(rise)
    as_, Hs, ds = at(sett)
    at_, Ht, dt_ = at(transit)
    # grazing: the altitude changes slower than sin(5 deg) of the diurnal
    # rate at the event
    H0 = math.acos(max(-1.0, min(1.0, cosH0)))
    graze = (math.cos(math.radians(lat)) * math.cos(math.radians(de[1]))
             * abs(math.sin(H0))) < math.sin(math.radians(15.0))
    if graze:
        mon.cls("grazing-rise-or-set", ident)
        mon.refusal("rts:grazing(not judged)")
        return
    mon.cls("rts-body", ident)
    # the documentation lets a time fall on the neighbouring day; only a
    # result more than half a day outside the day is rejected here
    mon.check("rts.within-half-a-day-of-the-day",
              all(-0.5 <= v <= 1.5 for v in (rise, transit, sett)),
              dict(case, returned=list(res)))
    err = max(abs(ar - h0), abs(as_ - h0))
    mon.stat("rts_altitude_err_deg", err, case)
    mon.check("rts.altitude", err <= 0.005 and Hr < 0.0 < Hs,
              dict(case, returned=list(res), altitude_at_rise=ar,
                   altitude_at_set=as_, hour_angles=[Hr, Hs]))
    mon.stat("rts_transit_hour_angle_deg", abs(Ht), case)
    mon.check("rts.transit", abs(Ht) <= 0.005,
              dict(case, returned=list(res), hour_angle_at_transit=Ht))


CASES = {"history": history.case, "season_mix": case_season_mix,
         "seasons": case_seasons, "season_refusals": case_season_refusals,
         "eot_year": case_eot_year, "sunrise": case_sunrise, "rts": case_rts}


def run(mon, spec):
    from vpm.oracles import nutation as _N
    if not _N.self_check():
        raise RuntimeError("nutation oracle self-check failed")
    history.run_cases(mon, ID, spec)
    if spec["part"] == "seasons":
        mon.begin("seasons", [spec["lo"], spec["hi"]])
        case_seasons(mon, spec["lo"], spec["hi"])
        rng = random.Random(spec["seed"] * 1000003 + spec["idx"])
        for _ in range(spec["n_mix"]):
            y = rng.randrange(-1000, 3001)
            sv = rng.randrange(1 << 30)
            mon.begin("season_mix", [y, sv])
            case_season_mix(mon, y, sv)
        if spec["lo"] == -1000:
            mon.begin("season_refusals", [])
            case_season_refusals(mon)
        return
    if spec["part"] == "eot":
        for y in spec["years"]:
            mon.begin("eot_year", [y])
            case_eot_year(mon, y)
        return
    rng = random.Random(spec["seed"] * 1000003 + spec["idx"])
    import time as _time
    mon.cls("process-time-zone " + "/".join(_time.tzname),
            ("tz", spec.get("tz")), spec.get("tz"))
    if spec["idx"] == 0:
        for p in ([2100, 9, 22, 60.3, -2.0, 0.0], [2019, 4, 2, 48.1333,
                                                   11.5667, 520.0],
                  [2000, 6, 21, 66.5, 0.0, 5000.0],
                  [2000, 12, 21, -66.5, 180.0, 0.0]):
            mon.begin("sunrise", p)
            case_sunrise(mon, *p)
        p = [71.0833, 42.3333, 41.73129, 18.44092, 0.99, 0.36, -0.5667, 56.0,
             177.74208]
        mon.begin("rts", p)
        case_rts(mon, *p)
    for k in range(spec["n_sun"]):
        y = rng.randrange(1900, 2101)
        if k % 3 == 0:
            m, d = rng.choice([(6, rng.randrange(10, 31)),
                               (12, rng.randrange(10, 32)), (3, 20), (9, 22),
                               (3, rng.randrange(15, 26)),
                               (9, rng.randrange(17, 28))])
        else:
            m, d = rng.randrange(1, 13), rng.randrange(1, 29)
        lat = rng.choice((66.5, -66.5, rng.uniform(-66.5, 66.5),
                          rng.uniform(60, 66.5), -rng.uniform(60, 66.5),
                          0.0))
        lon = rng.choice((180.0, -180.0, 0.0, rng.uniform(-180, 180)))
        h = rng.choice((0.0, 5000.0, rng.uniform(0, 5000),
                        # the height as an int (metres are often given so)
                        rng.choice((0, 520, 2500, 5000, rng.randrange(5000)))))
        if k % 16 == 2:
            # both ends of the range, in the months where the century rule of
            # the calendar matters
            y = rng.choice((1900, 2100))
            m, d = rng.choice((1, 2, 2, 3)), rng.randrange(1, 29)
        if k % 16 == 5:
            # the days around 29 February, the last days of the months and
            # of the year (sunrise or sunset falls on the neighbouring civil
            # day for longitudes far from Greenwich)
            y = rng.choice((1904, 2000, 2016, 2024, 2096, rng.randrange(
                1900, 2101)))
            m, d = rng.choice(((2, 28), (2, 29), (3, 1), (12, 31), (1, 1),
                               (4, 30), (10, 31)))
            if m == 2 and d == 29 and not (y % 4 == 0 and y != 1900
                                           and y != 2100):
                d = 28
            lon = rng.choice((150.0, -150.0, 179.0, -179.0, lon))
        if k % 4 == 1:
            # an Epoch that carries a time of day: the answer is for its date
            d = d + rng.choice((0.25, 0.5, 0.75, 0.999, rng.random()))
        p = [y, m, d, lat, lon, h]
        mon.begin("sunrise", p)
        case_sunrise(mon, *p)
    for _ in range(spec["n_rts"]):
        lat = rng.choice((rng.uniform(-89, 89), rng.uniform(-66, 66), 0.0,
                          rng.uniform(60, 89)))
        d2 = rng.uniform(-88, 88) if rng.random() < 0.8 else \
            rng.choice((1, -1)) * (90.0 - abs(lat) + rng.uniform(-2, 2))
        d2 = max(-88.0, min(88.0, d2))
        rate = rng.uniform(0.0, 1.5)
        ang = rng.uniform(0, 2 * math.pi)
        da = rate * math.cos(ang) / max(math.cos(math.radians(d2)), 0.05)
        da = max(-1.5, min(1.5, da))
        dd = rate * math.sin(ang)
        p = [rng.uniform(-180, 180), lat, rng.uniform(0, 360), d2, da, dd,
             rng.choice((-0.5667, -0.8333, 0.125, 0.0)),
             rng.choice((56.0, 69.0, 0.0, 32.184)), rng.uniform(0, 360)]
        r = rng.random()
        if r < 0.1:
            # stationary point / turning point in one or both coordinates
            p[4], p[5] = 0.0, 0.0
            p += [rng.uniform(-0.3, 0.3), rng.uniform(-0.1, 0.1)]
            mon.cls("body-at-a-stationary-point", tuple(p))
        elif r < 0.15:
            p[4] = 0.0
            p += [rng.uniform(-0.3, 0.3), 0.0]
        mon.begin("rts", p)
        case_rts(mon, *p)
