"""C18 - Earth ellipsoid quantities and surface distance satisfy their
identities."""
import math
import random

from vpm.oracles import sphere as sp

ID = "C18"
RULE = ("Seeded generation. Latitudes uniform in [-90, 90] plus +-90, 0, "
        "+-45 and their 10^-k neighbours; heights -500..9000 m; IAU76, WGS84 "
        "and random ellipsoids with f in [0, 0.01]. Point pairs: random, "
        "coincident, 1e-9 deg apart, same meridian, both on the equator, "
        "nearly antipodal, longitude difference > 180. Parallax: all sky "
        "positions (negative ecliptic latitudes and every longitude quadrant "
        "explicitly), observer latitude -90..90, distance log-uniform "
        "1e-3..1e3 AU. Oracles: closed-form ellipse identities, Gauss-"
        "Legendre integral of the meridian radius of curvature, vector "
        "great-circle distance, vector displacement on the sphere. "
        "Non-trivial = |lat| > 89.9 or < 0.1, coincident / antipodal / "
        "same-meridian / equatorial pair, ecliptic latitude < 0, distance < "
        "0.01 AU; distinct by inputs.")
ASSUMPTIONS = [
    "great-circle comparison uses the mean-radius sphere R = (2a+b)/3 with "
    "geodetic coordinates taken as spherical ones; judged for flattening <= "
    "1/298 and pairs not within 1 deg of antipodal (with R = a the geometry "
    "itself exceeds 0.6 %)",
    "parallax bound: horizontal parallax asin(sin 8.794''/dist) times "
    "(1 + h/a + 1e-6), h the observer's height",
]
EXHAUSTIVE = {"quick": False, "thorough": False}


def anchors():
    from pymeeus.Earth import Earth
    return {"Earth.distance": Earth.distance,
            "Earth.parallax_correction": Earth.parallax_correction,
            "Earth.parallax_ecliptical": Earth.parallax_ecliptical,
            "Earth.rho_sinphi": Earth.rho_sinphi, "Earth.rm": Earth.rm}


POINTS = {
    "parallax_ecl.lat-fold": ("Earth.parallax_ecliptical",
                              "topo_lat = topo_lat - 180.0"),
}
REQUIRED_CLAUSES = ["ellipse.identity", "rp==a*rho_cosphi", "rm.equator-pole",
                    "rm.monotone", "linear_velocity==omega*rp",
                    "height-increment", "set()-history-independent",
                    "independent-of-other-instances", "distance.symmetric",
                    "distance.coincident==0", "distance.equator",
                    "distance.argument-forms-agree",
                    "distance.meridian", "distance.within-0.6%-of-sphere",
                    "parallax.bounded", "parallax.tends-to-zero",
                    "parallax_ecl.bounded", "parallax_ecl.tends-to-zero"]
HPAR = math.radians(8.794 / 3600.0)


def shards(tier, seed):
    mult = 30 if tier == "thorough" else 1
    return [{"name": "s%02d" % i, "idx": i, "n": 25000 * mult}
            for i in range(16)]


def gen_lat(rng):
    r = rng.random()
    if r < 0.55:
        return rng.uniform(-90.0, 90.0)
    base = rng.choice((90.0, -90.0, 0.0, 45.0, -45.0))
    if r < 0.7:
        return base
    v = base + rng.choice((-1, 1)) * 10.0 ** (-rng.randrange(1, 14))
    return max(-90.0, min(90.0, v))


def gen_ellipsoid(rng):
    from pymeeus.Earth import Ellipsoid, IAU76, WGS84
    r = rng.random()
    if r < 0.35:
        return "WGS84", WGS84
    if r < 0.7:
        return "IAU76", IAU76
    a = rng.choice((6378137.0, 1.0, rng.uniform(1e6, 1e7)))
    f = rng.choice((0.0, 0.01, rng.uniform(0.0, 0.01)))
    # (a body that does not rotate, or hardly, or the other way: the rate
    # is the user's)
    om = rng.choice((rng.uniform(1e-5, 1e-4), rng.uniform(1e-5, 1e-4), 0.0,
                     1e-12, -7.292115e-5, 1.0))
    return "user", Ellipsoid(a, f, om)


def case_identities(mon, a, f, om, lat, h):
    from pymeeus.Earth import Earth, Ellipsoid
    from pymeeus.Angle import Angle
    mon.evals += 1
    el = Ellipsoid(a, f, om)
    e = Earth(el)
    b = a * (1.0 - f)
    case = {"a": a, "f": f, "lat": lat, "h": h}
    ident = ("id", a, f, lat, h)
    if abs(lat) > 89.9:
        mon.cls("|lat|>89.9", ident, case if abs(lat) < 90 else None)
    if abs(lat) < 0.1:
        mon.cls("|lat|<0.1", ident)
    if f not in (1.0 / 298.257, 1.0 / 298.257223563):
        mon.cls("user-ellipsoid", ident)
    else:
        mon.cls("built-in-ellipsoid", ident)
    try:
        bb, ee = el.b(), el.e()
        c0 = e.rho_cosphi(lat, 0.0)
        s0 = e.rho_sinphi(lat, 0.0)
        ch = e.rho_cosphi(lat, h)
        sh = e.rho_sinphi(lat, h)
        rp = e.rp(lat)
        rm = e.rm(lat)
        lv = e.linear_velocity(lat)
        # Angle form of the latitude must give the same numbers
        ca = e.rho_cosphi(Angle(lat), 0.0)
        rpa = e.rp(Angle(lat))
    except Exception as ex:
        mon.dev("ellipse.identity", dict(case, raised=repr(ex)))
        return
    # the same ellipsoid reached through set() on objects with a history
    # (built on another ellipsoid first) must give the same numbers
    from pymeeus.Earth import IAU76, WGS84
    hist = {}
    for label, start in (("Earth(WGS84).set(el)", WGS84),
                         ("Earth(IAU76).set(el)", IAU76),
                         ("Earth(f=0.01).set(el)",
                          Ellipsoid(6378137.0, 0.01, 7.0e-5))):
        try:
            e2 = Earth(start)
            e2.rho_cosphi(12.0, 100.0)          # use it before re-setting
            e2.set(el)
            got = (e2.rho_cosphi(lat, 0.0), e2.rho_sinphi(lat, 0.0),
                   e2.rho_cosphi(lat, h), e2.rho_sinphi(lat, h), e2.rp(lat),
                   e2.rm(lat), e2.linear_velocity(lat))
        except Exception as ex:
            got = repr(ex)
        if got != (c0, s0, ch, sh, rp, rm, lv):
            hist[label] = got
    # ... and while other Earth objects on other ellipsoids are alive (the
    # ones above, one more, and the default Earth() that the parallax
    # functions build internally), the first one still stands on its own
    try:
        e3 = Earth(Ellipsoid(6371000.0, 0.005, 8.0e-5))
        e3.rp(10.0)
        Earth()
        again = (e.rho_cosphi(lat, 0.0), e.rho_sinphi(lat, 0.0),
                 e.rho_cosphi(lat, h), e.rho_sinphi(lat, h), e.rp(lat),
                 e.rm(lat), e.linear_velocity(lat))
    except Exception as ex:
        again = repr(ex)
    mon.check("independent-of-other-instances",
              again == (c0, s0, ch, sh, rp, rm, lv),
              lambda: dict(case, alone=[c0, s0, ch, sh, rp, rm, lv],
                           with_other_instances=again))
    mon.cls("ellipsoid-changed-with-set()", ident)
    mon.check("set()-history-independent", not hist,
              lambda: dict(case, fresh_object=[c0, s0, ch, sh, rp, rm, lv],
                           after_set=hist))
    mon.check("ellipsoid.b,e", abs(bb - b) <= 1e-15 * a
              and abs(ee * ee - (2 * f - f * f)) <= 1e-15,
              dict(case, b=bb, e=ee))
    idn = c0 * c0 + (s0 * a / b) ** 2
    mon.stat("ellipse_identity_err", abs(idn - 1.0), case)
    mon.check("ellipse.identity", abs(idn - 1.0) <= 1e-12,
              dict(case, rho_cosphi=c0, rho_sinphi=s0, value=idn))
    mon.check("rp==a*rho_cosphi", abs(rp - a * c0) <= 1e-12 * a,
              dict(case, rp=rp, a_rho_cosphi=a * c0))
    mon.check("angle-latitude-same", ca == c0 and rpa == rp,
              dict(case, float_form=[c0, rp], angle_form=[ca, rpa]))
    mon.check("linear_velocity==omega*rp", abs(lv - om * rp) <= 1e-15 *
              abs(om * a), dict(case, v=lv, omega_rp=om * rp))
    # latitudes a hair away from the one just asked, on the same object and
    # straight after it (an answer kept from the previous call and looked up
    # by a rounded latitude shows here)
    for d in (4e-6, -4e-6, 1e-7, -1e-9, 3e-4, -0.0):
        lat_n = min(90.0, max(-90.0, lat + d))
        try:
            cn = e.rho_cosphi(lat_n, 0.0)
            sn = e.rho_sinphi(lat_n, 0.0)
            rpn = e.rp(lat_n)
            lvn = e.linear_velocity(lat_n)
            rmn = e.rm(lat_n)
        except Exception as ex:
            mon.dev("neighbour-latitude", dict(case, lat_n=lat_n,
                                               raised=repr(ex)))
            break
        sphi = math.sin(math.radians(lat_n))
        e2_ = 2 * f - f * f
        rm_want = a * (1 - e2_) / (1 - e2_ * sphi * sphi) ** 1.5
        mon.check("neighbour-latitude",
                  abs(cn * cn + (sn * a / b) ** 2 - 1.0) <= 1e-12
                  and abs(rpn - a * cn) <= 1e-12 * a
                  and abs(lvn - om * rpn) <= 1e-15 * abs(om * a)
                  and abs(rmn - rm_want) <= 1e-11 * a,
                  lambda: dict(case, lat_n=lat_n, rho_cosphi=cn,
                               rho_sinphi=sn, rp=rpn, a_rho_cosphi=a * cn,
                               v=lvn, omega_rp=om * rpn, rm=rmn,
                               rm_formula=rm_want))
    mon.cls("neighbour-latitudes-after-the-call", ident)
    phi = math.radians(lat)
    mon.check("height-increment",
              abs((ch - c0) - h / a * math.cos(phi)) <= 1e-15 * max(1, abs(
                  h / a)) and abs((sh - s0) - h / a * math.sin(phi)) <=
              1e-15 * max(1, abs(h / a)),
              dict(case, dcos=ch - c0, dsin=sh - s0))
    # meridian radius of curvature
    rm0, rm90 = e.rm(0.0), e.rm(90.0)
    mon.check("rm.equator-pole", abs(rm0 - b * b / a) <= 1e-12 * a
              and abs(rm90 - a * a / b) <= 1e-12 * a
              and abs(e.rm(-90.0) - a * a / b) <= 1e-12 * a,
              dict(case, rm0=rm0, rm90=rm90, b2_a=b * b / a, a2_b=a * a / b))
    lat2 = lat * 0.5
    mon.check("rm.monotone", e.rm(lat2) <= rm * (1 + 1e-13)
              and rm0 * (1 - 1e-13) <= rm <= rm90 * (1 + 1e-13),
              dict(case, rm=rm, rm_half_lat=e.rm(lat2)))


def gl_meridian(a, f, lat1, lat2, n=48):
    """Integral of the meridian radius of curvature between two latitudes
    (Gauss-Legendre, monitor code)."""
    e2 = 2 * f - f * f
    xs, ws = _gl_nodes(n)
    p1, p2 = math.radians(lat1), math.radians(lat2)
    mid, half = (p1 + p2) / 2.0, (p2 - p1) / 2.0
    tot = 0.0
    for x, w in zip(xs, ws):
        ph = mid + half * x
        tot += w * a * (1 - e2) / (1 - e2 * math.sin(ph) ** 2) ** 1.5
    return abs(tot * half)


_GL = {}


def _gl_nodes(n):
    if n in _GL:
        return _GL[n]
    xs, ws = [], []
    for i in range(1, n + 1):
        x = math.cos(math.pi * (i - 0.25) / (n + 0.5))
        for _ in range(100):
            p0, p1 = 1.0, x
            for k in range(2, n + 1):
                p0, p1 = p1, ((2 * k - 1) * x * p1 - (k - 1) * p0) / k
            dp = n * (x * p1 - p0) / (x * x - 1.0)
            dx = p1 / dp
            x -= dx
            if abs(dx) < 1e-16:
                break
        xs.append(x)
        ws.append(2.0 / ((1 - x * x) * dp * dp))
    _GL[n] = (xs, ws)
    return xs, ws


def case_distance(mon, a, f, lon1, lat1, lon2, lat2, kind):
    from pymeeus.Earth import Earth, Ellipsoid
    mon.evals += 1
    e = Earth(Ellipsoid(a, f, 7.292115e-5))
    b = a * (1.0 - f)
    case = {"a": a, "f": f, "p1": [lon1, lat1], "p2": [lon2, lat2],
            "kind": kind}
    ident = ("dist", a, f, lon1, lat1, lon2, lat2)
    mon.cls("pair:" + kind, ident, case if kind != "random" else None)
    try:
        d12, err12 = e.distance(lon1, lat1, lon2, lat2)
    except Exception as ex:
        clause = "distance.coincident==0" if kind == "coincident" \
            else "distance.symmetric"
        mon.dev(clause, dict(case, raised=repr(ex)), key_distance(kind, ex))
        return
    try:
        d21, _e = e.distance(lon2, lat2, lon1, lat1)
    except Exception as ex:
        mon.dev("distance.symmetric", dict(case, raised=repr(ex)))
        return
    mon.check("distance.finite", d12 == d12 and d12 >= 0.0
              and abs(d12) != math.inf, dict(case, d=d12))
    # each coordinate is documented as int, float or Angle: the form of every
    # argument drawn on its own (a longitude as an Angle next to a latitude
    # as a number, ...), same point, same distance
    import random as _random
    from pymeeus.Angle import Angle
    frng = _random.Random(repr(ident))
    mixed, forms = [], []
    for v in (lon1, lat1, lon2, lat2):
        k = frng.choice(("float", "Angle", "Angle", "int"))
        if k == "int" and (v != int(v)):
            k = "float"
        forms.append(k)
        mixed.append(Angle(v) if k == "Angle" else int(v) if k == "int"
                     else v)
    if abs(lon1) < 360.0 and abs(lon2) < 360.0:
        try:
            dm, _e = e.distance(*mixed)
            mon.check("distance.argument-forms-agree",
                      abs(dm - d12) <= 1e-9 * max(d12, 1e-9),
                      lambda: dict(case, forms=forms, mixed=dm, floats=d12))
        except Exception as ex:
            mon.dev("distance.argument-forms-agree",
                    dict(case, forms=forms, raised=repr(ex)))
        mon.cls("distance-forms:" + "/".join(forms), ident)
    mon.check("distance.symmetric", abs(d12 - d21) <= 1e-9 * max(d12, 1e-9),
              dict(case, d12=d12, d21=d21))
    sep = sp.sep_ll(lon1, lat1, lon2, lat2)
    if kind == "coincident":
        # two longitudes at a pole are the same point up to cos(90 deg)
        # rounding: accept anything below a micrometre
        mon.check("distance.coincident==0", 0.0 <= d12 <= 1e-6 * a / 6.4e6,
                  dict(case, d=d12))
        return
    if kind == "equator":
        dl = abs(lon1 - lon2) % 360.0
        dl = min(dl, 360.0 - dl)
        want = a * math.radians(dl)
        if dl <= 180.0:
            # the library converts each longitude to radians before
            # subtracting: allow 4 ulp of the larger longitude (in radians)
            slack = 4.0 * math.ulp(math.radians(max(abs(lon1), abs(lon2),
                                                    1e-300))) * a
            mon.check("distance.equator", abs(d12 - want) <= 1e-9 * want
                      + slack, dict(case, d=d12, expected=want))
    if kind == "meridian":
        want = gl_meridian(a, f, lat1, lat2)
        mon.stat("meridian_rel_err", abs(d12 - want) / max(want, 1e-9), case)
        # 1e-4 is stated for the built-in ellipsoids (f ~ 1/298); Andoyer's
        # first-order formula leaves an error of order f^2 for flatter ones
        reltol = 1e-4 if f <= 1.0 / 298.0 else max(1e-4, 5.0 * f * f)
        mon.check("distance.meridian", abs(d12 - want) <= reltol * want + 1e-6,
                  dict(case, d=d12, integral_of_rm=want))
    if f <= 1.0 / 298.0 and sep < 179.0 and sep > 1e-7:
        R = (2 * a + b) / 3.0
        gc = R * math.radians(sep)
        rel = d12 / gc - 1.0
        mon.stat("sphere_rel_dev", abs(rel), case)
        mon.check("distance.within-0.6%-of-sphere", abs(rel) <= 0.006,
                  dict(case, d=d12, great_circle=gc, rel=rel))


def key_distance(kind, ex):
    return None


def disp(lon1, lat1, lon2, lat2):
    return sp.sep_ll(lon1, lat1, lon2, lat2)


def case_parallax(mon, ra, dec, obslat, ha, h, dist0):
    from pymeeus.Earth import Earth
    from pymeeus.Angle import Angle
    prev = None
    ok_mono = True
    series = []
    for mult in (1.0, 10.0, 100.0, 1000.0):
        dist = dist0 * mult
        if dist > 1e3 * 1000:
            break
        mon.evals += 1
        try:
            tra, tdec = Earth.parallax_correction(Angle(ra), Angle(dec),
                                                  Angle(obslat), dist,
                                                  Angle(ha), h)
        except Exception as ex:
            mon.dev("parallax.bounded",
                    {"ra": ra, "dec": dec, "lat": obslat, "ha": ha, "h": h,
                     "dist": dist, "raised": repr(ex)})
            return
        d = disp(ra, dec, tra(), tdec())
        hp = math.degrees(math.asin(min(1.0, math.sin(HPAR) / dist)))
        bound = hp * (1.0 + max(h, 0.0) / 6378137.0 + 1e-6) + 1e-12
        case = {"ra": ra, "dec": dec, "lat": obslat, "ha": ha, "h": h,
                "dist": dist, "topocentric": [tra(), tdec()],
                "displacement": d, "horizontal_parallax": hp}
        if mult == 1.0:
            if dist < 0.01:
                mon.cls("distance<0.01AU", ("par", ra, dec, obslat, ha, dist))
            else:
                mon.cls("parallax", ("par", ra, dec, obslat, ha, dist))
            mon.stat("parallax_disp/bound", d / bound, case)
        mon.check("parallax.bounded", d <= bound, case)
        series.append(d)
        if prev is not None and not (d <= prev * (1 + 1e-9) + 1e-12):
            ok_mono = False
        prev = d
    if len(series) >= 3:
        mon.check("parallax.tends-to-zero", ok_mono
                  and series[-1] <= series[0] * 2e-2 + 1e-12,
                  {"ra": ra, "dec": dec, "lat": obslat, "ha": ha, "h": h,
                   "dist0": dist0, "displacements": series})


def case_parallax_ecl(mon, lon, lat, obslat, eps, lst, h, dist0):
    from pymeeus.Earth import Earth
    from pymeeus.Angle import Angle
    prev = None
    ok_mono = True
    series = []
    semi = 0.25
    for mult in (1.0, 10.0, 100.0, 1000.0):
        dist = dist0 * mult
        mon.evals += 1
        try:
            tl, tb, ts = Earth.parallax_ecliptical(
                Angle(lon), Angle(lat), Angle(semi / mult), Angle(obslat),
                Angle(eps), Angle(lst), dist, h)
        except Exception as ex:
            mon.dev("parallax_ecl.bounded",
                    {"lon": lon, "lat": lat, "obs_lat": obslat, "eps": eps,
                     "lst": lst, "h": h, "dist": dist, "raised": repr(ex)})
            return
        d = disp(lon, lat, tl(), tb())
        hp = math.degrees(math.asin(min(1.0, math.sin(HPAR) / dist)))
        bound = hp * (1.0 + max(h, 0.0) / 6378137.0 + 1e-6) + 1e-12
        case = {"lon": lon, "lat": lat, "obs_lat": obslat, "eps": eps,
                "lst": lst, "h": h, "dist": dist,
                "topocentric": [tl(), tb()], "displacement": d,
                "horizontal_parallax": hp}
        if mult == 1.0:
            if lat < 0:
                mon.cls("ecliptic-latitude<0",
                        ("pe", lon, lat, obslat, lst, dist),
                        case if -1 < lat else None)
            else:
                mon.cls("parallax-ecliptical",
                        ("pe", lon, lat, obslat, lst, dist))
            mon.stat("parallax_ecl_disp/bound", min(d / bound, 1e6), case)
        mon.check("parallax_ecl.bounded", d <= bound
                  and -90.0 <= tb() <= 90.0 and 0.0 <= tl() < 360.0, case,
                  key_parallax_ecl(lat, tb()))
        series.append(d)
        if prev is not None and not (d <= prev * (1 + 1e-9) + 1e-12):
            ok_mono = False
        prev = d
    mon.check("parallax_ecl.tends-to-zero", ok_mono
              and series[-1] <= series[0] * 2e-2 + 1e-12,
              {"lon": lon, "lat": lat, "obs_lat": obslat, "lst": lst,
               "dist0": dist0, "displacements": series})


def key_parallax_ecl(lat, tb):
    return None


CASES = {"identities": case_identities, "distance": case_distance,
         "parallax": case_parallax, "parallax_ecl": case_parallax_ecl}


def gen_pair(rng):
    r = rng.random()
    lon1 = rng.uniform(-180, 180)
    lat1 = gen_lat(rng)
    if r < 0.35:
        return lon1, lat1, rng.uniform(-180, 180), gen_lat(rng), "random"
    if r < 0.45:
        return lon1, lat1, lon1, lat1, "coincident"
    if r < 0.52:
        return lon1, lat1, lon1 + 1e-9, min(90.0, lat1 + 1e-9), "1e-9-apart"
    if r < 0.67:
        la1, la2 = rng.uniform(-90, 90), rng.uniform(-90, 90)
        if rng.random() < 0.3:
            la1, la2 = rng.choice(((0.0, 90.0), (-90.0, 90.0), (0.0, 45.0),
                                   (-30.0, 30.0)))
        if la1 == la2:
            la2 = la1 / 2.0 + 1.0
        return lon1, la1, lon1, la2, "meridian"
    if r < 0.8:
        lon2 = rng.choice((lon1 + rng.uniform(-179, 179), lon1 + 200.0,
                           lon1 - 270.0, lon1 + 1e-6, lon1 + 179.9999,
                           # almost, and exactly, antipodal along the equator
                           lon1 + 180.0 - 10.0 ** rng.uniform(-9, -2),
                           lon1 - 180.0 + 10.0 ** rng.uniform(-9, -2),
                           lon1 + 180.0))
        return lon1, 0.0, lon2, 0.0, "equator"
    if r < 0.9:
        eps = rng.choice((2.0, 5.0, 1.5, 30.0))
        return lon1, lat1, lon1 + 180.0 + rng.uniform(-eps, eps), \
            max(-90.0, min(90.0, -lat1 + rng.uniform(-eps, eps))), \
            "near-antipodal"
    return lon1, lat1, lon1 + rng.uniform(181, 359), gen_lat(rng), "dlon>180"


def run(mon, spec):
    if not sp.self_check():
        raise RuntimeError("sphere self-check failed")
    rng = random.Random(spec["seed"] * 1000003 + spec["idx"])
    if spec["idx"] == 0:
        for (a, f) in ((6378137.0, 1 / 298.257223563), (6378140.0,
                                                        1 / 298.257)):
            for p in ((10.0, 20.0, 10.0, 20.0, "coincident"),
                      (0.0, 0.0, 0.0, 0.0, "coincident"),
                      (0.0, 90.0, 123.0, 90.0, "coincident"),
                      (0.0, 0.0, 0.0, 90.0, "meridian"),
                      (0.0, 0.0, 90.0, 0.0, "equator"),
                      (2.336666667, 48.83638889, -77.06555556, 38.92138889,
                       "random")):
                mon.begin("distance", [a, f] + list(p))
                case_distance(mon, a, f, *p)
        for lat in (-0.001, -1e-9, -5.0, 0.0, 1e-9, 5.0):
            for lon in (10.0, 100.0, 181.0, 280.0, 0.0, 359.999999):
                p = [lon, lat, 33.356, 23.4, 209.77, 0.0, 0.0025]
                mon.begin("parallax_ecl", p)
                case_parallax_ecl(mon, *p)
    for _ in range(spec["n"]):
        r = rng.random()
        if r < 0.35:
            name, el = gen_ellipsoid(rng)
            p = [el._a, el._f, el._omega, gen_lat(rng),
                 rng.choice((0.0, rng.uniform(-500, 9000)))]
            kind = "identities"
        elif r < 0.65:
            name, el = gen_ellipsoid(rng)
            p = [el._a, el._f] + list(gen_pair(rng))
            kind = "distance"
        elif r < 0.82:
            p = [rng.uniform(0, 360), gen_lat(rng), gen_lat(rng),
                 rng.uniform(0, 360), rng.choice((0.0, rng.uniform(0, 9000))),
                 10.0 ** rng.uniform(-3, 0)]
            kind = "parallax"
        else:
            lat = rng.choice((rng.uniform(-90, 90), rng.uniform(-6, 6),
                              -10.0 ** rng.uniform(-9, 0)))
            p = [rng.uniform(0, 360), lat, gen_lat(rng),
                 rng.uniform(22.0, 24.5), rng.uniform(0, 360),
                 rng.choice((0.0, rng.uniform(0, 9000))),
                 10.0 ** rng.uniform(-3, 0)]
            kind = "parallax_ecl"
        mon.begin(kind, p)
        CASES[kind](mon, *p)
