"""C04 - sexagesimal and right-ascension decomposition and printing are
canonical."""
import math
import random
from fractions import Fraction

from vpm.oracles import exact as ex

ID = "C04"
RULE = ("Seeded generation of Angle values +-(d + m/60 + s/3600) + delta with "
        "integer d, m, s and delta in {0, +-1e-13..+-1e-7 deg, +-(0.5*10^-n +- "
        "1e-12)/3600 deg} (the rounding break points of n decimals), the same "
        "around 0, +-360 and whole hours, plus uniform values; for each: "
        "dms_tuple, ra_tuple, deg2dms (also on unreduced inputs), dms2deg, and "
        "dms_str / ra_str in both styles for n_dec in -1..12 (quick: 4 "
        "sampled n_dec per value incl. the one delta was built for; thorough: "
        "all 14). Oracle: exact rational recombination and a permissive "
        "parser of the printed fields. Non-trivial = value within 1e-6 arcsec "
        "of a whole second/minute/degree or of 0/+-360, printing that "
        "carries, sub-degree negative value; distinct by (value, style, "
        "n_dec).")
ASSUMPTIONS = [
    "read-back tolerance = half a unit of the last printed decimal (arc- or "
    "time-seconds) + 1e-9 degree; with n_dec = -1, 1e-9 degree",
    "a printed '24h 0' 0.0''' / '360d' is accepted: the property asks for "
    "congruence modulo 24 h / 360 degrees",
]
EXHAUSTIVE = {"quick": False, "thorough": False}


def anchors():
    from pymeeus.Angle import Angle
    return {"Angle.deg2dms": Angle.deg2dms, "Angle.dms_str": Angle.dms_str,
            "Angle.ra_str": Angle.ra_str, "Angle.dms2deg": Angle.dms2deg,
            "Angle.reduce_dms": Angle.reduce_dms}


POINTS = {
    "dms_str.carry-s": ("Angle.dms_str", "m += 1"),
    "dms_str.carry-m": ("Angle.dms_str", "d += 1.0"),
    "dms_str.wrap-d": ("Angle.dms_str", "d -= 360.0"),
    "dms_str.fancy-d": ("Angle.dms_str",
                        "return \"{}d {}' {}''\".format(int(sign * d), m, s)"),
    "dms_str.fancy-m": ("Angle.dms_str",
                        "return \"{}' {}''\".format(int(sign * m), s)"),
    "dms_str.fancy-s": ("Angle.dms_str",
                        "return \"{}''\".format(sign * s)"),
    "dms_str.fancy-0": ("Angle.dms_str", "return \"0d 0' 0.0''\""),
    "dms_str.colon-d": ("Angle.dms_str",
                        "return \"{}:{}:{}\".format(int(sign * d), m, s)"),
    "dms_str.colon-m": ("Angle.dms_str",
                        "return \"0:{}:{}\".format(int(sign * m), s)"),
    "dms_str.colon-s": ("Angle.dms_str",
                        "return \"0:0:{}\".format(sign * s)"),
    "dms_str.colon-0": ("Angle.dms_str", "return \"0:0:0.0\""),
}
REQUIRED_POINTS = list(POINTS)
REQUIRED_CLAUSES = ["tuple.ranges", "tuple.recombines", "dms2deg.inverts",
                    "str.parses", "str.no-60", "str.sign-once-on-leading",
                    "str.reads-back", "independent-of-object-tolerance",
                    "unchanged-after-refused-print"]


def shards(tier, seed):
    n = 16
    per = (600000 if tier == "thorough" else 90000) // n
    return [{"name": "s%02d" % i, "idx": i, "n": per,
             "all_ndec": tier == "thorough"} for i in range(n)]


# ----------------------------------------------------------------- parsing
def parse(s, ra):
    """Permissive parser: returns (fields as floats [d, m, s], raw strings)
    or None.  Missing leading fields (fancy style) are zero."""
    unit = "h" if ra else "d"
    raw = None
    if "''" in s:                                   # fancy
        if not s.endswith("''"):
            return None
        body = s[:-2]
        parts = []
        if unit in body:
            a, body = body.split(unit, 1)
            parts.append(a.strip())
            body = body.strip()
        if "'" in body:
            a, body = body.split("'", 1)
            parts.append(a.strip())
            body = body.strip()
        parts.append(body.strip())
        raw = ["0"] * (3 - len(parts)) + parts
    else:
        raw = s.split(":")
        if len(raw) != 3:
            return None
    try:
        vals = [float(x) for x in raw]
    except ValueError:
        return None
    if any(v != v or abs(v) == math.inf for v in vals):
        return None
    return vals, raw


def check_string(mon, v, s, ra, fancy, n_dec):
    """v: the Angle's value in degrees (exact float)."""
    case = {"value": v, "string": s, "ra": ra, "fancy": fancy,
            "n_dec": n_dec}
    p = parse(s, ra) if isinstance(s, str) else None
    if not mon.check("str.parses", p is not None, case):
        return
    vals, raw = p
    mon.check("str.no-60", abs(vals[1]) < 60.0 and abs(vals[2]) < 60.0, case)
    # sign: exactly one '-' in the whole string, on the first field whose
    # magnitude is non-zero; none if everything printed is zero
    minus = s.count("-")
    nz = [i for i, x in enumerate(vals) if x != 0.0]
    # scientific notation in the seconds field may carry its own '-'
    exp_minus = sum(1 for r in raw if "e-" in r.lower())
    minus -= exp_minus
    negative = any(r.strip().startswith("-") for r in raw)
    if not nz:
        ok = (minus == 0)
    elif negative:
        ok = (minus == 1 and raw[nz[0]].strip().startswith("-"))
    else:
        ok = (minus == 0)
    mon.check("str.sign-once-on-leading", ok, case)
    # read back
    mag = abs(ex.fr(vals[0])) + abs(ex.fr(vals[1])) / 60 + \
        abs(ex.fr(vals[2])) / 3600
    back = -mag if negative else mag
    if ra:
        back = back * 15
    err = ex.cong_err(v, back)            # degrees, modulo 360
    unit = 15.0 if ra else 1.0            # one time-second = 15 arc-seconds
    tol = 1e-9 + (0.5 * 10.0 ** (-n_dec) * unit / 3600.0 if n_dec >= 0 else 0)
    mon.stat("readback_err/tol", err / tol, case)
    half = (0.5 * 10.0 ** (-n_dec) * unit / 3600.0 if n_dec >= 0 else 0.0)
    import math as _m
    mon.stat("readback_excess_over_half_unit_in_ulps_of_value",
             max(0.0, err - half) / _m.ulp(max(abs(v), 1e-300)), case)
    mon.check("str.reads-back", err <= tol,
              lambda: dict(case, read_back_deg=float(back), error_deg=err,
                           tolerance_deg=tol))
    # the sign shown must be the value's sign whenever something non-zero is
    # shown and the value is not within the rounding unit of zero
    if nz and abs(v) > 2 * tol and abs(abs(v) - 360.0) > 2 * tol:
        mon.check("str.sign-matches-value", negative == (v < 0), case)
    if n_dec >= 0 and ("e" not in raw[2].lower()):
        dec = raw[2].split(".")[1] if "." in raw[2] else ""
        mon.check("str.decimals<=n_dec", len(dec) <= max(n_dec, 1), case)


def check_tuple(mon, label, v, t, ra):
    case = {"fn": label, "value": v, "tuple": list(t) if isinstance(
        t, tuple) else repr(t)}
    ok = isinstance(t, tuple) and len(t) == 4
    if ok:
        d, m, s, sign = t
        top = 24 if ra else 360
        ok = (type(d) is int and type(m) is int and 0 <= d < top
              and 0 <= m < 60 and isinstance(s, float) and 0.0 <= s < 60.0
              and sign in (1, -1, 1.0, -1.0))
    if not mon.check("tuple.ranges", ok, case):
        return
    back = sign * (Fraction(d) + Fraction(m) / 60 + ex.fr(s) / 3600)
    if ra:
        back = back * 15
    err = ex.cong_err(v, back)
    mon.stat("tuple_recombine_err_deg", err, case)
    mon.check("tuple.recombines", err <= 1e-9,
              lambda: dict(case, recombined=float(back), error_deg=err))


def case_value(mon, v, ndecs, raw_input=None):
    """v: float in (-360, 360).  raw_input: an unreduced number for the
    static deg2dms."""
    from pymeeus.Angle import Angle
    a = Angle(v)
    v = a()
    mon.evals += 1
    ident = ("v", v)
    # classes
    asec = abs(ex.fr(v)) * 3600
    near_sec = abs(asec - round(asec)) <= Fraction(1, 10 ** 6)
    if near_sec:
        mon.cls("within-1e-6-arcsec-of-whole-second", ident,
                v if abs(asec - round(asec)) > 0 else None)
    if near_sec and round(asec) % 60 == 0:
        mon.cls("within-1e-6-arcsec-of-whole-minute", ident)
    if near_sec and round(asec) % 3600 == 0:
        mon.cls("within-1e-6-arcsec-of-whole-degree", ident, v)
    if abs(v) < 1e-9 or abs(abs(v) - 360.0) < 1e-9:
        mon.cls("at-0-or-360", ident, v)
    if -1.0 < v < 0.0:
        mon.cls("sub-degree-negative", ident, v)
    try:
        check_tuple(mon, "dms_tuple", v, a.dms_tuple(), False)
        check_tuple(mon, "ra_tuple", v, a.ra_tuple(), True)
        check_tuple(mon, "deg2dms", v, Angle.deg2dms(v), False)
        if raw_input is not None:
            red = float(ex.red360(ex.fr(raw_input)))
            check_tuple(mon, "deg2dms(unreduced)", red,
                        Angle.deg2dms(raw_input), False)
        d, m, s, sign = a.dms_tuple()
        back = Angle.dms2deg(sign * d if d else d, sign * m if (not d and m)
                             else m, sign * s if (not d and not m) else s)
        mon.check("dms2deg.inverts", abs(back - v) <= 1e-9
                  or abs(abs(back - v) - 360.0) <= 1e-9,
                  {"value": v, "tuple": [d, m, s, sign], "dms2deg": back})
    except Exception as e:
        mon.dev("tuple.ranges", {"value": v, "raised": repr(e)})
    for n_dec in ndecs:
        for fancy in (True, False):
            for ra in (False, True):
                mon.evals += 1
                try:
                    s = a.ra_str(fancy, n_dec) if ra else \
                        a.dms_str(fancy, n_dec)
                except Exception as e:
                    mon.dev("str.parses", {"value": v, "ra": ra,
                                           "fancy": fancy, "n_dec": n_dec,
                                           "raised": repr(e)})
                    continue
                check_string(mon, v, s, ra, fancy, n_dec)
                mon.nontriv.add(hash((v, ra, fancy, n_dec)) & ((1 << 64) - 1))
                if ("0' 0.0''" in s or ":0:0.0" in s) and n_dec >= 0 \
                        and not near_sec:
                    mon.cls("printing-carried", (v, ra, fancy, n_dec),
                            [v, n_dec, s])
    mon.check("operand-unchanged", a() == v, {"value": v, "after": a()})
    # "a negative n_dec disables rounding": every negative value, not only
    # the default -1
    try:
        for f in (True, False):
            full = (a.dms_str(f, -1), a.ra_str(f, -1))
            for nn in (-2, -3, -12):
                mon.evals += 1
                got = (a.dms_str(f, nn), a.ra_str(f, nn))
                mon.check("negative-n_dec==no-rounding", got == full,
                          lambda: {"value": v, "fancy": f, "n_dec": nn,
                                   "printed": got, "with_n_dec=-1": full})
    except Exception as e:
        mon.dev("negative-n_dec==no-rounding", {"value": v,
                                                "raised": repr(e)})
    # a refused print call (n_dec of the wrong type) leaves the Angle as it
    # was: every decomposition and printed form afterwards is unchanged
    try:
        b = Angle(v)
        before = (b(), b.dms_tuple(), b.ra_tuple(), b.dms_str(), b.ra_str(),
                  b.dms_str(False, 3), b.ra_str(False, 3))
        for bad in (2.0, None, "3", [1]):
            for f in (b.ra_str, b.dms_str):
                mon.evals += 1
                try:
                    f(n_dec=bad)
                except Exception:
                    pass
        after = (b(), b.dms_tuple(), b.ra_tuple(), b.dms_str(), b.ra_str(),
                 b.dms_str(False, 3), b.ra_str(False, 3))
        mon.check("unchanged-after-refused-print", after == before,
                  lambda: {"value": v, "before": repr(before)[:300],
                           "after": repr(after)[:300]})
    except Exception as e:
        mon.dev("unchanged-after-refused-print", {"value": v,
                                                  "raised": repr(e)})
    # the comparison tolerance of an Angle (set_tolerance, inherited by
    # copies) and earlier views of the same object do not take part in
    # decomposition or printing
    try:
        ref = [(a.dms_str(f, n), a.ra_str(f, n)) for n in ndecs
               for f in (True, False)] + [a.dms_tuple(), a.ra_tuple()]
        for tol in (0.0, 1e-3, 1e-14):
            b = Angle(v)
            b.set_tolerance(tol)
            c = Angle(b)
            for obj in (b, c):
                got = [(obj.dms_str(f, n), obj.ra_str(f, n)) for n in ndecs
                       for f in (True, False)] + [obj.dms_tuple(),
                                                  obj.ra_tuple()]
                mon.evals += 1
                mon.check("independent-of-object-tolerance", got == ref,
                          lambda: {"value": v, "tolerance": tol,
                                   "n_dec": list(ndecs),
                                   "with_tolerance": repr(got)[:300],
                                   "default": repr(ref)[:300]})
    except Exception as e:
        mon.dev("independent-of-object-tolerance",
                {"value": v, "raised": repr(e)})


def gen_value(rng):
    """Returns (v, n_dec the delta was built for or None, raw_input)."""
    r = rng.random()
    sign = rng.choice((-1, 1))
    unit = rng.choice((1.0, 15.0))         # arc-seconds or time-seconds grid
    nfor = None
    if r < 0.02:
        # whole turns (exactly, and one ulp either side) before reduction
        k = 360.0 * rng.randrange(1, 6)
        return sign * rng.choice((k, math.nextafter(k, 0.0),
                                  math.nextafter(k, 1e9))), None, None
    if r < 0.15:
        return sign * rng.uniform(0.0, 360.0), None, None
    if r < 0.22:
        raw = sign * 10.0 ** rng.uniform(2, 9)
        return float(ex.red360(ex.fr(raw))), None, raw
    # grid point
    r2 = rng.random()
    if r2 < 0.2:
        d, m, s = rng.choice((0, 0, 359, 1, 23 * int(unit), 15, 180)), \
            rng.choice((0, 59)), rng.choice((0, 59))
    elif r2 < 0.4:
        d, m, s = 0, rng.choice((0, 0, 1, 59)), rng.randrange(0, 60)
    else:
        d = rng.randrange(0, 360 // int(unit))
        m = rng.choice((0, 59, rng.randrange(60)))
        s = rng.choice((0, 59, rng.randrange(60)))
    base = (Fraction(d) + Fraction(m, 60) + Fraction(s, 3600)) * int(unit)
    r3 = rng.random()
    if r3 < 0.2:
        delta = 0.0
    elif r3 < 0.5:
        delta = rng.choice((-1, 1)) * 10.0 ** rng.uniform(-13, -7)
    else:
        nfor = rng.randrange(0, 13)
        delta = rng.choice((-1, 1)) * (0.5 * 10.0 ** (-nfor)
                                       + rng.choice((-1, 0, 1)) * 1e-12 *
                                       rng.random()) * unit / 3600.0
        if rng.random() < 0.5:
            # just below the next whole second: 59.99..95 style carries
            delta = (1.0 - 0.5 * 10.0 ** (-nfor) * rng.choice((0.9, 1.0, 1.1))
                     ) * unit / 3600.0
    v = sign * (float(base) + delta)
    if abs(v) >= 360.0:
        v = sign * (360.0 - abs(delta) - 1e-9) if abs(delta) > 0 else 0.0
        v = math.copysign(min(abs(v), 359.99999999999994), v)
    return v, nfor, None


def case_history(mon, seedval):
    """One Angle object carried through a random sequence of mutators with
    the splits and printed forms read in between: after every step the
    object's views have to be those of its *current* value (a view kept from
    before a mutator - a stored split, a stored string - shows here)."""
    from pymeeus.Angle import Angle
    rng = random.Random(seedval)
    v0 = rng.choice((-10.5, -359.999999999, 359.5, -0.25, 0.0,
                     rng.uniform(-360, 360), rng.uniform(-1, 1)))
    a = Angle(v0)
    mon.evals += 1
    steps = []
    for _ in range(rng.randrange(4, 14)):
        op = rng.choice(("dms_tuple", "ra_tuple", "dms_str", "ra_str",
                         "to_positive", "set", "set_radians", "set_ra",
                         "iadd", "isub", "imul", "idiv", "set_tuple",
                         "dms_tuple", "to_positive"))
        x = rng.choice((rng.uniform(-400, 400), -30.0, 180.0, -0.5, 1e-7))
        steps.append([op, x])
        try:
            if op in ("dms_tuple", "ra_tuple"):
                getattr(a, op)()
            elif op == "dms_str":
                a.dms_str(rng.random() < 0.5, rng.randrange(-1, 6))
            elif op == "ra_str":
                a.ra_str(rng.random() < 0.5, rng.randrange(-1, 6))
            elif op == "to_positive":
                a.to_positive()
            elif op == "set":
                a.set(x)
            elif op == "set_radians":
                a.set_radians(math.radians(x))
            elif op == "set_ra":
                a.set_ra(x / 15.0)
            elif op == "set_tuple":
                a.set((int(abs(x)), 30, 15.5, -1.0 if x < 0 else 1.0))
            elif op == "iadd":
                a += x
            elif op == "isub":
                a -= Angle(x)
            elif op == "imul":
                a *= rng.choice((-1, 2, 0.5, -3.25))
            elif op == "idiv":
                a /= rng.choice((-1, 2, 0.5, -3.25))
            v = a()
            if v < 0:
                mon.cls("history.negative-value", ("h", seedval, len(steps)))
            mon.cls("history.after-" + op, ("h", seedval, len(steps)))
            t1, t2 = a.dms_tuple(), a.ra_tuple()
            fresh = Angle(v)
            nd = rng.randrange(-1, 6)
            fancy = rng.random() < 0.5
            same = (t1 == fresh.dms_tuple() and t2 == fresh.ra_tuple()
                    and a.dms_str(fancy, nd) == fresh.dms_str(fancy, nd)
                    and a.ra_str(fancy, nd) == fresh.ra_str(fancy, nd))
            mon.check("history.views-follow-value", same,
                      lambda: {"start": v0, "steps": steps, "value": v,
                               "dms_tuple": list(t1),
                               "fresh dms_tuple": list(fresh.dms_tuple()),
                               "ra_tuple": list(t2),
                               "fresh ra_tuple": list(fresh.ra_tuple())})
            check_tuple(mon, "dms_tuple", v, t1, False)
            check_tuple(mon, "ra_tuple", v, t2, True)
        except Exception as e:
            mon.dev("history.views-follow-value",
                    {"start": v0, "steps": steps, "raised": repr(e)})
            return


CASES = {"value": case_value, "history": case_history}


def directed(mon, all_nd):
    nd = list(range(-1, 13))
    for v in (0.0, -0.0, 359.99999999999994, -359.99999999999994,
              -0.44694444, -0.9999999, 0.9999999, -1e-9, 1e-9, -1e-12,
              359.9999999, -359.9999999, 15.0, -15.0, 14.999999999,
              359.99998611, 23.44694444, -23.44694444, 0.016666666666,
              0.0002777777777, -0.000277777, 5e-324, 1.3888888888e-8,
              359.999999999999, 0.99999999999999,
              # whole turns and half turns, as numbers before reduction
              360.0, -360.0, 720.0, -720.0, 1080.0, -3600.0, 180.0, -180.0,
              540.0, -540.0, 360.00000000000006, -360.00000000000006):
        mon.begin("value", [v, nd, None])
        case_value(mon, v, nd)


def run(mon, spec):
    rng = random.Random(spec["seed"] * 1000003 + spec["idx"])
    if spec["idx"] == 0:
        directed(mon, spec["all_ndec"])
    for _ in range(spec["n"]):
        v, nfor, raw = gen_value(rng)
        if spec["all_ndec"]:
            nd = list(range(-1, 13))
        else:
            nd = {-1, rng.randrange(0, 13), rng.randrange(0, 4)}
            if nfor is not None:
                nd.add(nfor)
            nd = sorted(nd)
        mon.begin("value", [v, nd, raw])
        case_value(mon, v, nd, raw)
    for _ in range(max(200, spec["n"] // 50)):
        sv = rng.randrange(1 << 30)
        mon.begin("history", [sv])
        case_history(mon, sv)
