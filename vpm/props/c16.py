"""C16 - weekday, day of year, fractional year and sidereal time follow the
JDE."""
import datetime
import math
import random

from vpm import history
from vpm.oracles import daycount as dc
from vpm.props import c01

ID = "C16"
RULE = ("Calendar part: every civil day of the selected years (thorough: all "
        "years -4712..6000, exhaustive; quick: the C01 quick subset) -> dow() "
        "at 0h/12h/23:59:59.9, doy(), get_doy() with and without a day "
        "fraction, doy2date(get_doy()), year() at three instants of the day, "
        "is_leap/leap; oracle = independent day counter (weekday = (JDN+1) "
        "mod 7, day of year = civil days since 1 January + 1).  Sidereal "
        "part: seeded JDE in [0, 5.4e6] incl. k+0.5 +- ulp; oracle = IAU 1982 "
        "GMST expression in the monitor, library's own nutation/obliquity for "
        "the equation of the equinoxes.  Non-trivial = 29 Feb or later in a "
        "Julian century year, year <= 0, 1582, 31 Dec / 1 Jan, JDE within "
        "1e-9 of k+0.5; distinct by date or JDE.")
ASSUMPTIONS = [
    "day counter oracle as in C01",
    "for 15 Oct..31 Dec 1582 the property's two definitions of day of year "
    "disagree by 10 (JDE difference vs. calendar numbering); both values are "
    "accepted there",
    "IAU 1982 GMST expression (Meeus 12.4) evaluated in double precision",
]
EXHAUSTIVE = {"quick": False, "thorough": True}


def anchors():
    from pymeeus.Epoch import Epoch
    return {"Epoch.get_doy": Epoch.get_doy, "Epoch.doy2date": Epoch.doy2date,
            "Epoch.dow": Epoch.dow, "Epoch.year": Epoch.year,
            "Epoch.mean_sidereal_time": Epoch.mean_sidereal_time,
            "Epoch.apparent_sidereal_time": Epoch.apparent_sidereal_time}


POINTS = {}
REQUIRED_CLAUSES = ["history.views==fresh-object", history.CLAUSE, "dow==(JDN+1)%7", "dow.constant-over-day",
                    "dow==gregorian-weekday", "doy==days-since-jan1",
                    "get_doy.fraction", "doy2date.inverts", "year.int-part",
                    "year.strictly-increasing", "dec31==365|366",
                    "gmst.range", "gmst==IAU1982", "gmst.daily-advance",
                    "gast-gmst==eqeq", "eqeq<1.2s"]


def shards(tier, seed):
    ys = c01.years_for(tier, seed)
    n = 32 if tier == "thorough" else 16
    out = [{"name": "cal-%02d" % i, "part": "cal", "years": ys[i::n]}
           for i in range(n)]
    ns = 16
    per = (3000000 if tier == "thorough" else 160000) // ns
    out += [{"name": "sid-%02d" % i, "part": "sid", "n": per, "idx": i}
            for i in range(ns)]
    return out


def _doy_ok(y, m, d, want, got):
    """Day-of-year comparison; in 1582 after the reform either numbering."""
    if got == want:
        return True
    if y == 1582 and (m > 10 or (m == 10 and d >= 15)) and got == want + 10:
        return True
    return False


def key_doy(y, m, d, want, got):
    """Classifier for day-of-year deviations (by mechanism)."""
    return None


def case_year(mon, y):
    from pymeeus.Epoch import Epoch
    century_j = (y % 100 == 0 and y < 1582)
    prev_year_val = None
    prev_dow = None
    ylen = dc.year_len(y)
    leap_want = dc.is_leap(y)
    try:
        lp = Epoch.is_leap(y)
    except Exception as ex:
        lp = repr(ex)
    mon.check("is_leap", lp == leap_want, {"year": y, "got": lp})
    for m, d, j0, wd, doy in dc.walk_year(y):
        mon.evals += 1
        ident = (y, m, d)
        late = (m > 2 or (m == 2 and d == 29))
        if century_j and late:
            mon.cls("julian-century-after-feb28", ident,
                    [y, m, d] if d in (1, 29) and m < 4 else None)
        if y <= 0:
            mon.cls("year<=0", ident)
        if y == 1582:
            mon.cls("1582", ident)
        if (m == 12 and d == 31) or (m == 1 and d == 1):
            mon.cls("year-edge", ident)
        # ---- weekday ---------------------------------------------------
        try:
            dows = [Epoch(j0).dow(), Epoch(j0 + 0.5).dow(),
                    Epoch(y, m, d, 23, 59, 59.9).dow()]
        except Exception as ex:
            mon.dev("dow==(JDN+1)%7", {"date": [y, m, d], "raised": repr(ex)})
            dows = None
        if dows is not None:
            mon.check("dow==(JDN+1)%7", dows[1] == wd,
                      {"date": [y, m, d], "dow": dows[1], "expected": wd})
            mon.check("dow.constant-over-day",
                      dows[0] == dows[1] == dows[2],
                      {"date": [y, m, d], "dow_0h_12h_24h": dows})
            if prev_dow is not None:
                mon.check("dow.advances-by-one",
                          dows[0] == (prev_dow + 1) % 7,
                          {"date": [y, m, d], "dow": dows[0],
                           "previous": prev_dow})
            prev_dow = dows[0]
            if y > 1582:
                g = (datetime.date(y, m, d).weekday() + 1) % 7
                mon.check("dow==gregorian-weekday", dows[0] == g,
                          {"date": [y, m, d], "dow": dows[0], "datetime": g})
        # ---- day of year ----------------------------------------------------
        e = Epoch(j0)
        try:
            got = e.doy()
        except Exception as ex:
            got = repr(ex)
        mon.check("doy==days-since-jan1",
                  _doy_ok(y, m, d, float(doy), got),
                  lambda: {"date": [y, m, d], "doy": got, "expected": doy},
                  lambda: key_doy(y, m, d, doy, got))
        try:
            g1 = Epoch.get_doy(y, m, d)
            g2 = Epoch.get_doy(y, m, d + 0.75)
        except Exception as ex:
            g1 = g2 = repr(ex)
        mon.check("get_doy==days-since-jan1",
                  _doy_ok(y, m, d, float(doy), g1),
                  lambda: {"date": [y, m, d], "get_doy": g1, "expected": doy},
                  lambda: key_doy(y, m, d, doy, g1))
        mon.check("get_doy.fraction",
                  isinstance(g1, float) and isinstance(g2, float)
                  and g2 == g1 + 0.75,
                  lambda: {"date": [y, m, d + 0.75], "get_doy": g2,
                           "whole_day": g1},
                  lambda: key_doy(y, m, d, doy, g1))
        # inverse: feed the library's own day of year back
        if isinstance(g1, float):
            try:
                back = Epoch.doy2date(y, g1)
                back2 = Epoch.doy2date(y, g1 + 0.25)
            except Exception as ex:
                back = back2 = repr(ex)
            mon.check("doy2date.inverts",
                      isinstance(back, tuple) and tuple(back) == (y, m, d)
                      and tuple(back2) == (y, m, d + 0.25),
                      lambda: {"date": [y, m, d], "get_doy": g1,
                               "doy2date": back, "doy2date(+0.25)": back2},
                      lambda: key_doy(y, m, d, doy, g1))
        if m == 12 and d == 31:
            mon.check("dec31==365|366",
                      _doy_ok(y, m, d, float(366 if leap_want else 365)
                              if y != 1582 else 355.0, got),
                      {"year": y, "doy": got, "leap": leap_want},
                      lambda: key_doy(y, m, d, doy, got))
        # ---- fractional year ---------------------------------------------------
        for frac in (0.0, 0.5, 0.99999):
            try:
                yv = Epoch(j0 + frac).year()
            except Exception as ex:
                mon.dev("year.int-part", {"date": [y, m, d + frac],
                                          "raised": repr(ex)},
                        key_year(y, m, d, None))
                prev_year_val = None
                break
            mon.check("year.int-part", math.floor(yv) == y,
                      lambda: {"date": [y, m, d + frac], "year()": yv},
                      lambda: key_year(y, m, d, yv))
            if prev_year_val is not None:
                mon.check("year.strictly-increasing", yv > prev_year_val,
                          lambda: {"date": [y, m, d + frac], "year()": yv,
                                   "previous": prev_year_val},
                          lambda: key_year(y, m, d, yv))
            prev_year_val = yv
        # ... strictly, also over a millisecond (25 floats of the JDE at the
        # present era; the year with decimals still resolves 7 microseconds)
        if d in (1, 15) or m == 12:
            try:
                ja = j0 + 0.3183 + 0.001 * d
                ya, yb = Epoch(ja).year(), Epoch(ja + 1.2e-8).year()
                mon.check("year.strictly-increasing", yb > ya,
                          lambda: {"jde": ja, "year()": ya,
                                   "one_millisecond_later": yb},
                          lambda: key_year(y, m, d, ya))
            except Exception as ex:
                mon.dev("year.strictly-increasing",
                        {"date": [y, m, d], "raised": repr(ex)},
                        key_year(y, m, d, None))
    # across the year boundary
    if y < 6000 and prev_year_val is not None:
        try:
            yn = Epoch(dc.jd0h(y + 1, 1, 1)).year()
            mon.check("year.strictly-increasing", yn > prev_year_val,
                      {"date": [y + 1, 1, 1], "year()": yn,
                       "previous": prev_year_val}, key_year(y + 1, 1, 1, yn))
        except Exception as ex:
            mon.dev("year.strictly-increasing",
                    {"date": [y + 1, 1, 1], "raised": repr(ex)},
                    key_year(y + 1, 1, 1, None))


def key_year(y, m, d, val):
    return None


# ---------------------------------------------------------------- sidereal
def gmst_iau1982(jd):
    """Meeus (12.4), result in days (turns), in [0, 1)."""
    t = (jd - 2451545.0) / 36525.0
    deg = (280.46061837 + 360.98564736629 * (jd - 2451545.0)
           + 0.000387933 * t * t - t * t * t / 38710000.0)
    return (deg / 360.0) % 1.0


def circ(a, b):
    """Distance between two fractions of a turn."""
    x = (a - b) % 1.0
    return min(x, 1.0 - x)


def case_sidereal(mon, j, do_eq=True):
    from pymeeus.Epoch import Epoch
    from pymeeus.Coordinates import nutation_longitude, true_obliquity
    mon.evals += 1
    e = Epoch(j)
    try:
        th = e.mean_sidereal_time()
        th1 = Epoch(j + 1.0).mean_sidereal_time()
    except Exception as ex:
        mon.dev("gmst.range", {"jde": j, "raised": repr(ex)})
        return
    near = abs((j % 1.0) - 0.5) < 1e-9
    if near:
        mon.cls("jde-at-civil-midnight", (j,), [j, th])
    else:
        mon.cls("jde-generic", None)
    mon.nontriv.add(hash((j,)) & ((1 << 64) - 1))
    mon.check("gmst.range", isinstance(th, float) and 0.0 <= th < 1.0,
              {"jde": j, "gmst": th})
    err = circ(th, gmst_iau1982(j))
    mon.stat("gmst_vs_IAU1982_days", err, j)
    mon.check("gmst==IAU1982", err <= 1e-7, {"jde": j, "gmst": th,
                                             "iau1982": gmst_iau1982(j)})
    adv = circ((th1 - th) % 1.0, 1.00273790935 % 1.0)
    mon.stat("gmst_daily_advance_err", adv, j)
    mon.check("gmst.daily-advance", adv <= 1e-7,
              {"jde": j, "gmst": th, "gmst(j+1)": th1})
    # consecutive calls within one day, across noon and across midnight, and
    # the first instant again: each still follows the IAU expression
    fl = math.floor(j)
    seq = [fl + (j - fl + 0.5) % 1.0, j, fl + 0.25, fl + 0.75, j + 1e-3, j]
    for j2 in seq:
        mon.evals += 1
        try:
            t2 = Epoch(j2).mean_sidereal_time()
        except Exception as ex:
            mon.dev("gmst==IAU1982", {"jde": j2, "after_call_at": j,
                                      "raised": repr(ex)})
            break
        e2 = circ(t2, gmst_iau1982(j2))
        mon.check("gmst==IAU1982", e2 <= 1e-7,
                  {"jde": j2, "gmst": t2, "iau1982": gmst_iau1982(j2),
                   "sequence_of_calls": [j, j + 1.0] + seq})
    if not do_eq:
        return
    try:
        dpsi = nutation_longitude(e)
        eps = true_obliquity(e)
        ap = e.apparent_sidereal_time(eps, dpsi)
    except Exception as ex:
        mon.dev("gast-gmst==eqeq", {"jde": j, "raised": repr(ex)})
        return
    eqeq_s = float(dpsi) * 3600.0 * math.cos(math.radians(float(eps))) / 15.0
    diff_s = (ap - th) * 86400.0
    mon.stat("abs_equation_of_equinoxes_s", abs(diff_s), j)
    mon.check("gast-gmst==eqeq", abs(diff_s - eqeq_s) <= 1e-5,
              {"jde": j, "gast-gmst_s": diff_s, "eqeq_s": eqeq_s})
    mon.check("eqeq<1.2s", abs(diff_s) < 1.2,
              {"jde": j, "gast-gmst_s": diff_s, "eqeq_s": eqeq_s},
              key_eqeq(j, diff_s))
    # the two arguments are the caller's: with a nutation that is not the
    # real one - none at all (0 as an int, 0.0, a zero Angle), a tiny one, a
    # negative one - the difference is the equation of the equinoxes of
    # *that* nutation (documented types: int, float, Angle)
    from pymeeus.Angle import Angle as _A
    k = int(j * 7) % 6
    dp = (0, 0.0, _A(0.0), 1e-6, -0.004, _A(-0.0031))[k]
    ob = (23.44, _A(23.44), 23, 23.4392911, _A(23.45), 23.44)[k]
    try:
        ap2 = e.apparent_sidereal_time(ob, dp)
    except Exception as ex:
        mon.dev("gast-gmst==eqeq", {"jde": j, "obliquity": repr(ob),
                                    "nutation": repr(dp),
                                    "raised": repr(ex)})
        return
    want_s = float(dp) * 3600.0 * math.cos(math.radians(float(ob))) / 15.0
    got_s = (ap2 - th) * 86400.0
    mon.cls("caller-supplied-nutation", (j, k))
    mon.check("gast-gmst==eqeq", abs(got_s - want_s) <= 1e-5,
              lambda: {"jde": j, "obliquity": repr(ob), "nutation": repr(dp),
                       "gast-gmst_s": got_s, "eqeq_s": want_s})


def case_wrap(mon, j0):
    """The instant at which the mean sidereal time wraps from just under 1
    to 0, bisected down to adjacent floats after JDE j0: the last value
    before the wrap is the one closest to 1 that the function can produce,
    the place where a result rounded to the nearest would come out as 1.0."""
    from pymeeus.Epoch import Epoch

    def mst(j):
        return Epoch(j).mean_sidereal_time()
    a = j0
    try:
        va = mst(a)
        if va <= 0.0975:
            a += 0.2
            va = mst(a)
        lo, hi = a, a + 0.9
        for _ in range(80):
            mid = 0.5 * (lo + hi)
            if mid <= lo or mid >= hi:
                break
            if mst(mid) >= va:
                lo = mid
            else:
                hi = mid
        pts = [lo, hi, math.nextafter(lo, 0.0), math.nextafter(hi, 1e9)]
        vals = [(j, mst(j)) for j in pts]
    except Exception as ex:
        mon.dev("gmst.range", {"jde": j0, "raised": repr(ex)})
        return
    mon.evals += 4
    mon.cls("sidereal-day-wrap", ("wrap", lo), [lo, hi])
    for j, th in vals:
        # Epoch(j) may re-derive the JDE one ulp off: judge at its own JDE
        je = Epoch(j).jde()
        mon.check("gmst.range", isinstance(th, float) and 0.0 <= th < 1.0,
                  {"jde": j, "gmst": th, "at": "sidereal-day wrap"})
        mon.check("gmst==IAU1982", circ(th, gmst_iau1982(je)) <= 1e-7,
                  {"jde": j, "gmst": th, "iau1982": gmst_iau1982(je)})
    mon.stat("closest_to_1_seen", max(v for _j, v in vals), lo)


def key_eqeq(j, diff_s):
    """The IAU 1980 series' secular coefficients (-171996 - 174.2 T) grow the
    18.6-year amplitude past 1.2 s once T > ~38 centuries."""
    t = (j - 2451545.0) / 36525.0
    if t > 35.0 and 1.2 <= abs(diff_s) <= 1.2 + 0.0013 * (t - 35.0) + 0.01:
        return "eqeq.over-1.2s-after-year-5500"
    return None


def _objhistory(mon, sv):
    from vpm.props import c02 as _c02
    _c02.case_objhistory(mon, sv)


CASES = {"objhistory": _objhistory, "history": history.case, "year": case_year, "sidereal": case_sidereal,
         "wrap": case_wrap}


def gen_jde(rng):
    r = rng.random()
    if r < 0.5:
        return rng.uniform(0.0, 5.4e6)
    k = float(rng.randrange(0, 5400000)) + 0.5
    if r < 0.6:
        return k
    if r < 0.75:
        return math.nextafter(k, rng.choice((0.0, 1e9)))
    if r < 0.85:
        return k + rng.choice((-1, 1)) * 10.0 ** rng.uniform(-10, -1)
    if r < 0.92:
        return float(rng.randrange(0, 5400000))      # noon
    return k + rng.random()


def run(mon, spec):
    history.run_cases(mon, ID, spec)
    if not dc.self_check():
        raise RuntimeError("day counter self-check failed")
    rng_h = random.Random(repr(sorted((k, repr(v)[:40]) for k, v in spec.items())))
    # one Epoch object through option-carrying reads and every form of
    # set(): its plain views stay those of a fresh Epoch of the same JDE
    from vpm.props import c02 as _c02
    for _ in range(40):
        sv = rng_h.randrange(1 << 30)
        mon.begin("objhistory", [sv])
        _c02.case_objhistory(mon, sv)
    if spec["part"] == "cal":
        for y in spec["years"]:
            mon.begin("year", [y])
            case_year(mon, y)
    else:
        rng = random.Random(spec["seed"] * 1000003 + spec["idx"])
        # sidereal-day wraps: small JDEs first (floats 1e-13 apart: the wrap
        # is resolved to a few 1e-13 of a turn), then days anywhere
        for k in range(max(300, spec["n"] // 40)):
            jw = float(rng.randrange(0, 3000)) if k % 2 == 0 else \
                float(rng.randrange(0, 5400000))
            jw += rng.random()
            mon.begin("wrap", [jw])
            case_wrap(mon, jw)
        for _ in range(spec["n"]):
            j = gen_jde(rng)
            do_eq = rng.random() < 0.25
            mon.begin("sidereal", [j, do_eq])
            case_sidereal(mon, j, do_eq)
