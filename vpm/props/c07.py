"""C07 - VSOP87 heliocentric positions are physical, continuous and
self-consistent."""
import importlib
import math
import random
from decimal import Decimal
from fractions import Fraction

from vpm import history
from vpm import seams
from vpm.oracles import exact as ex
from vpm.oracles import sphere as sp

ID = "C07"
PLANETS = ["Mercury", "Venus", "Earth", "Mars", "Jupiter", "Saturn",
           "Uranus", "Neptune"]
PERIOD = {"Mercury": 87.969, "Venus": 224.701, "Earth": 365.256,
          "Mars": 686.98, "Jupiter": 4332.59, "Saturn": 10759.2,
          "Uranus": 30688.5, "Neptune": 60182.0}
KEPLER_TOL = {"Mercury": 0.1, "Venus": 0.1, "Earth": 0.1, "Mars": 0.1,
              "Jupiter": 1.0, "Saturn": 2.5, "Uranus": 2.5, "Neptune": 2.5}
RULE = ("Per planet Mercury..Neptune: seeded epochs in years -2000..4000 "
        "(uniform, both ends, +-1 day around J2000); each epoch is evaluated "
        "with tofk5 False/True and in apparent form, with the library's own "
        "mean elements, and against a direct table-order summation combined "
        "in exact rational arithmetic. Event logs: daily steps over one orbit "
        "(quick: 2000-day windows for Jupiter..Neptune) in 3 eras (thorough: "
        "6) for monotonic longitude and Keplerian rate; 1-second steps for "
        "continuity. Non-trivial = |t| > 2 millennia from J2000, epoch within "
        "10 days of perihelion/aphelion of the mean orbit, longitude within "
        "1 deg of the 0/360 seam; distinct by (planet, epoch).")
ASSUMPTIONS = [
    "Kepler position from the library's own mean elements of date through "
    "the library's kepler_equation and a standard orbit-to-ecliptic rotation "
    "in the monitor",
    "direct summation: inner sums in double precision in table order (as the "
    "tables are given), powers of t and the combination in exact rational "
    "arithmetic, reduction modulo 2 pi with 60-digit pi",
    "Kepler's third law with Gauss' constant 0.9856076686 deg/day",
]
EXHAUSTIVE = {"quick": False, "thorough": False}
J2000 = 2451545.0
PI60 = Decimal("3.14159265358979323846264338327950288419716939937510582097494")


def anchors():
    from pymeeus import Coordinates as C
    return {"vsop_pos": C.vsop_pos, "geometric_vsop_pos": C.geometric_vsop_pos,
            "apparent_vsop_pos": C.apparent_vsop_pos,
            "orbital_elements": C.orbital_elements}


POINTS = {
    "geometric.tofk5": ("geometric_vsop_pos", "lambda_p = lon - t *"),
    "apparent.nutation": ("apparent_vsop_pos",
                          "lon += nutation_longitude(epoch)"),
    "elements.4-row-table": ("orbital_elements",
                             "i = compute_element(t, parameters2[1])"),
    "elements.6-row-table": ("orbital_elements",
                             "i = compute_element(t, parameters2[3])"),
}
REQUIRED_POINTS = list(POINTS)
REQUIRED_CLAUSES = [history.CLAUSE, "L.range", "B<=i+0.05", "R.within-orbit",
                    "kepler.direction", "kepler.direction(J2000-elements)", "kepler.radius",
                    "evaluator==direct-sum.L", "evaluator==direct-sum.B",
                    "evaluator==direct-sum.R", "evaluator==direct-sum.caller-tables", "fk5.correction",
                    "apparent.correction", "daily.longitude-increases",
                    "daily.rate-keplerian", "second.continuity",
                    "series-rate==element-rate", "kepler-third-law"]


def shards(tier, seed):
    out = []
    n_ep = 12000 if tier == "thorough" else 1200
    per = 4 if tier == "thorough" else 1
    for p in PLANETS:
        for k in range(2 * per):
            out.append({"name": "%s-ep%d" % (p, k), "planet": p,
                        "part": "epochs", "n": n_ep // (2 * per), "idx": k})
        eras = [-1900, 400, 3300] if tier != "thorough" else \
            [-1950, -800, 300, 1500, 2600, 3800]
        for era in eras:
            out.append({"name": "%s-walk%d" % (p, era), "planet": p,
                        "part": "walk", "era": era,
                        "full": tier == "thorough"})
        out.append({"name": "%s-const" % p, "planet": p, "part": "const"})
    return out


def jd_of_year(y):
    return J2000 + (y - 2000.0) * 365.25


def get(planet):
    mod = importlib.import_module("pymeeus." + planet)
    return mod, getattr(mod, planet)


def wrap(d):
    return (d + 180.0) % 360.0 - 180.0


def direct_sum(tab, t):
    """Exact-rational combination of the double inner sums."""
    T = Fraction(t)
    tot = Fraction(0)
    for i, ser in enumerate(tab):
        s = 0.0
        for A, B, C in ser:
            s += A * math.cos(B + C * t)
        tot += Fraction(s) * T ** i
    return tot / 10 ** 8


def red_2pi(fr):
    d = Decimal(fr.numerator) / Decimal(fr.denominator)
    r = d % (2 * PI60)
    if r < 0:
        r += 2 * PI60
    return r


def key_evalL(planet, err, unreduced):
    """The library converts the unreduced longitude (up to 1e5 rad for
    Mercury) to degrees before reducing it: an error of a few ulp of the
    unreduced value is built in."""
    ulp = math.ulp(abs(unreduced))
    if err <= 8 * ulp and 8 * ulp > 1e-11:
        return "evaluator.ulp-of-unreduced-longitude"
    return None


def kepler_pos(ll, a, e, inc, om, arg):
    """Heliocentric ecliptic unit direction and radius from mean elements
    (Angles / floats as returned by orbital_elements_*)."""
    from pymeeus.Coordinates import kepler_equation
    from pymeeus.Angle import Angle
    pie = arg() + om()
    M = Angle(ll() - pie)
    E, v = kepler_equation(e, M)
    r = a * (1.0 - e * math.cos(E.rad()))
    u = math.radians(v() + arg())
    Om, ir = om.rad(), inc.rad()
    x = math.cos(Om) * math.cos(u) - math.sin(Om) * math.sin(u) * math.cos(ir)
    y = math.sin(Om) * math.cos(u) + math.cos(Om) * math.sin(u) * math.cos(ir)
    z = math.sin(ir) * math.sin(u)
    return (x, y, z), r, M()


def case_epoch(mon, planet, jde):
    from pymeeus.Epoch import Epoch
    from pymeeus import Coordinates as C
    mod, cls = get(planet)
    mon.evals += 1
    e = Epoch(jde)
    jd = e.jde()
    case = {"planet": planet, "jde": jd}
    ident = (planet, jd)
    try:
        L0, B0, R0 = cls.geometric_heliocentric_position(e, tofk5=False)
        L1, B1, R1 = cls.geometric_heliocentric_position(e)
        if planet == "Earth":
            La, Ba, Ra = cls.apparent_heliocentric_position(e)
            Ln, Bn, Rn = cls.apparent_heliocentric_position(e, nutation=False)
        else:
            La, Ba, Ra = cls.apparent_heliocentric_position(e)
            Ln = None
        ll, a, ecc, inc, om, arg = cls.orbital_elements_mean_equinox(e)
    except Exception as ex_:
        mon.dev("L.range", dict(case, raised=repr(ex_)))
        return
    if abs(jd - J2000) > 2000 * 365.25:
        mon.cls("|t|>2-millennia", ident)
    if L0() < 1.0 or L0() > 359.0:
        mon.cls("longitude-within-1deg-of-seam", ident, dict(case, L=L0()))
    # (a) ranges and bounds
    mon.check("L.range", 0.0 <= L0() < 360.0 and 0.0 <= L1() < 360.0 + 1e-4
              and -360.0 < La() < 360.0, dict(case, L=[L0(), L1(), La()]))
    mon.stat("max(|B|-i) deg " + planet, abs(B0()) - inc(), case)
    mon.check("B<=i+0.05", abs(B0()) <= inc() + 0.05,
              dict(case, B=B0(), i=inc()))
    q, Q = a * (1 - ecc), a * (1 + ecc)
    mon.check("R.within-orbit", 0.99 * q <= R0 <= 1.01 * Q,
              dict(case, R=R0, perihelion=q, aphelion=Q))
    # (c) Kepler from the library's own mean elements
    kv, kr, M = kepler_pos(ll, a, ecc, inc, om, arg)
    if min(abs(wrap(M)), abs(wrap(M - 180.0))) * PERIOD[planet] / 360.0 < 10:
        mon.cls("within-10d-of-perihelion/aphelion", ident)
    d = sp.sep(sp.vec(L0(), B0()), kv)
    mon.stat("kepler_direction_deg " + planet, d, case)
    mon.check("kepler.direction", d <= KEPLER_TOL[planet],
              dict(case, vsop=[L0(), B0()], kepler_sep_deg=d))
    mon.stat("kepler_radius_rel " + planet, abs(R0 / kr - 1.0), case)
    mon.check("kepler.radius", abs(R0 / kr - 1.0) <= 0.01,
              dict(case, R=R0, kepler_r=kr))
    # ... and from the other set of mean elements the library offers, those
    # referred to the standard equinox J2000.0: the Kepler direction is
    # carried to the ecliptic of date with the library's own ecliptical
    # precession (for the Earth, whose J2000 series the library has, also
    # compared directly in the J2000 frame)
    try:
        from pymeeus.Angle import Angle
        ej = cls.orbital_elements_j2000(e)
        kj, krj, _M = kepler_pos(*ej)
        lj, bj = sp.lonlat(kj)
        ld, bd = C.precession_ecliptical(Epoch(J2000), e, Angle(lj),
                                         Angle(bj))
        dj = sp.sep(sp.vec(L0(), B0()), sp.vec(ld(), bd()))
        mon.stat("kepler_direction_deg(J2000 elements) " + planet, dj, case)
        mon.check("kepler.direction(J2000-elements)",
                  dj <= KEPLER_TOL[planet] and abs(R0 / krj - 1.0) <= 0.01,
                  lambda: dict(case, vsop=[L0(), B0()], kepler_sep_deg=dj,
                               kepler_r=krj))
        if planet == "Earth":
            LJ, BJ, RJ = cls.geometric_heliocentric_position_j2000(
                e, tofk5=False)
            d2 = sp.sep(sp.vec(LJ(), BJ()), kj)
            mon.check("kepler.direction(J2000-elements)",
                      d2 <= KEPLER_TOL[planet],
                      lambda: dict(case, vsop_j2000=[LJ(), BJ()],
                                   kepler_sep_deg=d2))
    except Exception as ex_:
        mon.dev("kepler.direction(J2000-elements)",
                dict(case, raised=repr(ex_)))
    # (d) evaluator against direct summation
    t = (jd - 2451545.0) / 365250.0
    try:
        l_, b_, r_ = C.vsop_pos(e, mod.VSOP87_L, mod.VSOP87_B, mod.VSOP87_R)
    except Exception as ex_:
        mon.dev("evaluator==direct-sum.L", dict(case, raised=repr(ex_)))
        return
    dl = direct_sum(mod.VSOP87_L, t)
    db = direct_sum(mod.VSOP87_B, t)
    dr = direct_sum(mod.VSOP87_R, t)
    errL = abs(Decimal(l_.rad()) - red_2pi(dl))
    errL = float(min(errL, 2 * PI60 - errL))
    mon.stat("evaluator_L_err_rad " + planet, errL, case)
    mon.check("evaluator==direct-sum.L", errL <= 1e-11,
              lambda: dict(case, library_rad=l_.rad(),
                           unreduced_rad=float(dl), error_rad=errL),
              lambda: key_evalL(planet, errL, float(dl)))
    errB = abs(float(Fraction(b_.rad()) - db))
    errR = abs(float(Fraction(r_) - dr))
    mon.stat("evaluator_B_err_rad", errB, case)
    mon.check("evaluator==direct-sum.B", errB <= 1e-11,
              dict(case, library_rad=b_.rad(), direct=float(db)))
    mon.check("evaluator==direct-sum.R", "evaluator==direct-sum.caller-tables", errR <= 1e-11,
              dict(case, library=r_, direct=float(dr)))
    mon.check("geometric(tofk5=False)==vsop_pos", L0() == l_() and B0() == b_()
              and R0 == r_, dict(case, vsop=[l_(), b_(), r_],
                                 geometric=[L0(), B0(), R0]))
    # (e) FK5 and apparent corrections
    T = (jd - 2451545.0) / 36525.0
    lp = math.radians(L0() - T * (1.397 + 0.00031 * T))
    dlon = (-0.09033 + 0.03916 * (math.cos(lp) + math.sin(lp))
            * math.tan(B0.rad())) / 3600.0
    dlat = 0.03916 * (math.cos(lp) - math.sin(lp)) / 3600.0
    mon.check("fk5.correction", abs(wrap(L1() - L0()) - dlon) <= 1e-9
              and abs((B1() - B0()) - dlat) <= 1e-9 and R1 == R0,
              dict(case, dL=wrap(L1() - L0()), dB=B1() - B0(),
                   expected=[dlon, dlat]))
    ab = -20.4898 / R0 / 3600.0
    nut = C.nutation_longitude(e)()
    mon.check("apparent.correction", abs(wrap(La() - L1()) - (nut + ab))
              <= 1e-9 and Ba() == B1() and Ra == R1
              and (Ln is None or abs(wrap(Ln() - L1()) - ab) <= 1e-9),
              dict(case, apparent_minus_geometric=wrap(La() - L1()),
                   nutation=nut, aberration=ab))
    mon.check("epoch-unchanged", e.jde() == jd, case)


def origin_crossing(planet, j0):
    """An epoch after j0 where the planet's heliocentric longitude passes
    360 -> 0 (located with the library's own geometric longitude)."""
    from pymeeus.Epoch import Epoch
    mod, cls = get(planet)
    rate = 360.0 / PERIOD[planet]
    j = j0
    for _ in range(6):
        L = cls.geometric_heliocentric_position(Epoch(j), tofk5=False)[0]()
        d = (360.0 - L) if _ == 0 else -wrap(L)
        j += d / rate
        if abs(d) < 1e-7:
            break
    return j


def case_tables(mon, planet, jde, sv):
    """vsop_pos() is public and takes the tables from the caller: truncated
    temporaries, a caller-owned copy that is edited in place between calls,
    another planet's tables - all at one epoch - must each give the direct
    summation of exactly the tables passed."""
    from pymeeus.Epoch import Epoch
    from pymeeus import Coordinates as C
    rng = random.Random(sv)
    mod = importlib.import_module("pymeeus." + planet)
    e = Epoch(jde)
    t = (e.jde() - 2451545.0) / 365250.0
    own = [[list(map(tuple, ser)) for ser in tab]
           for tab in (mod.VSOP87_L, mod.VSOP87_B, mod.VSOP87_R)]
    variants = []
    for k in (1, 2, 3, rng.randrange(1, 6)):
        variants.append(("temporaries L[:%d]" % k, None, k))
    variants.append(("own copy", own, None))
    variants.append(("own copy, edited in place", own, "edit"))
    variants.append(("own copy, edited in place", own, "edit"))
    for label, tabs, arg in variants:
        mon.evals += 1
        if tabs is None:
            L, B, R = mod.VSOP87_L[:arg], mod.VSOP87_B[:arg], \
                mod.VSOP87_R[:arg]
        else:
            if arg == "edit":
                for tab in tabs:
                    ser = tab[rng.randrange(len(tab))]
                    if len(ser) > 1:
                        ser.pop(rng.randrange(len(ser)))
                    ser[0] = (ser[0][0] * 1.5, ser[0][1], ser[0][2])
            L, B, R = tabs
        case = {"planet": planet, "jde": jde, "seed": sv, "tables": label}
        try:
            l_, b_, r_ = C.vsop_pos(e, L, B, R)
        except Exception as ex_:
            mon.dev("evaluator==direct-sum.caller-tables",
                    dict(case, raised=repr(ex_)))
            continue
        dl, db, dr = direct_sum(L, t), direct_sum(B, t), direct_sum(R, t)
        errL = abs(Decimal(l_.rad()) - red_2pi(dl))
        errL = float(min(errL, 2 * PI60 - errL))
        errB = abs(float(Fraction(math.radians(b_())) - db))
        errR = abs(float(Fraction(r_) - dr))
        tolL = max(1e-11, 8 * math.ulp(abs(float(dl))))
        mon.check("evaluator==direct-sum.caller-tables",
                  errL <= tolL and errB <= 1e-9 and errR <= 1e-11,
                  lambda: dict(case, library=[l_.rad(), b_(), r_],
                               direct=[float(dl), float(db), float(dr)],
                               errors=[errL, errB, errR]))
    mon.cls("caller-supplied-tables", ("tables", planet, jde, sv))


def case_walk(mon, planet, jde0, ndays):
    """Event log of daily positions: offline monotonicity and rate."""
    from pymeeus.Epoch import Epoch
    mod, cls = get(planet)
    prev = None
    n_ok = 0
    ll, a, ecc, inc, om, arg = cls.orbital_elements_mean_equinox(Epoch(jde0))
    n = 0.9856076686 / a ** 1.5
    lo = n * math.sqrt(1 - ecc ** 2) / (1 + ecc) ** 2
    hi = n * math.sqrt(1 - ecc ** 2) / (1 - ecc) ** 2
    worst_lo, worst_hi = 9.0, 0.0
    for k in range(ndays + 1):
        mon.evals += 1
        jd = jde0 + k
        L, B, R = cls.geometric_heliocentric_position(Epoch(jd), tofk5=False)
        if prev is not None:
            rate = wrap(L() - prev[0])
            case = {"planet": planet, "jde": jd, "dL_per_day": rate}
            mon.check("daily.longitude-increases", rate > 0.0, case)
            # the longitude rate of an inclined orbit also varies by cos i
            # .. 1/cos i around the Keplerian in-plane rate
            ci = math.cos(inc.rad())
            mon.check("daily.rate-keplerian", 0.97 * lo * ci <= rate
                      <= 1.03 * hi / ci,
                      dict(case, kepler_min=lo, kepler_max=hi))
            worst_lo = min(worst_lo, rate / lo)
            worst_hi = max(worst_hi, rate / hi)
        prev = (L(), B(), R)
    mon.stat("daily_rate/kepler_max " + planet, worst_hi, [planet, jde0])
    mon.stat("kepler_min/daily_rate " + planet, 1.0 / worst_lo,
             [planet, jde0])
    mon.cls("daily-walk", (planet, jde0, ndays), [planet, jde0, ndays])


def case_second(mon, planet, jde):
    from pymeeus.Epoch import Epoch
    mod, cls = get(planet)
    mon.evals += 2
    dt = 1.0 / 86400.0
    L1, B1, R1 = cls.geometric_heliocentric_position(Epoch(jde), tofk5=False)
    L2, B2, R2 = cls.geometric_heliocentric_position(Epoch(jde + dt),
                                                     tofk5=False)
    ll, a, ecc, inc, om, arg = cls.orbital_elements_mean_equinox(Epoch(jde))
    n = 0.9856076686 / a ** 1.5
    hi = n * math.sqrt(1 - ecc ** 2) / (1 - ecc) ** 2
    bound = 2.0 * hi * dt + 1e-9
    case = {"planet": planet, "jde": jde, "dL": wrap(L2() - L1()),
            "dB": B2() - B1(), "dR": R2 - R1}
    mon.cls("one-second-pair", (planet, jde))
    mon.check("second.continuity", abs(wrap(L2() - L1())) <= bound
              and abs(B2() - B1()) <= bound and abs(R2 - R1) <=
              2 * a * ecc * math.radians(hi) * dt * 2 + 1e-9, case)


def case_apparent_hours(mon, planet, jde, h):
    """Apparent positions asked for a few minutes to hours apart, one after
    the other: at each instant apparent - geometric (FK5) is the nutation in
    longitude of *that* instant - taken from the monitor's own series, not
    from the library's nutation_longitude(), which an answer kept from the
    previous instant would agree with - plus the aberration term."""
    from pymeeus.Epoch import Epoch
    from pymeeus import Coordinates as C
    from vpm.oracles import nutation as N
    mod, cls = get(planet)
    lo, hi = jd_of_year(-2000.0), jd_of_year(4000.0)
    for jx in (jde, jde + h, jde - 0.5 * h, jde + 1.0 / 86400.0, jde):
        if not lo <= jx <= hi:
            continue
        mon.evals += 1
        case = {"planet": planet, "jde": jx, "first_asked": jde, "hours":
                h * 24.0}
        try:
            e = Epoch(jx)
            La, Ba, Ra = cls.apparent_heliocentric_position(e)
            L1, B1, R1 = cls.geometric_heliocentric_position(e)
            nl = C.nutation_longitude(Epoch(jx))()
            dpsi = N.nutation(jx)[0] / 3600.0
        except Exception as ex_:
            mon.dev("apparent.nutation-of-the-instant",
                    dict(case, raised=repr(ex_)))
            return
        ab = -20.4898 / R1 / 3600.0
        mon.check("apparent.nutation-of-the-instant",
                  abs(wrap(La() - L1()) - (dpsi + ab)) <= 1e-8
                  and abs(nl - dpsi) <= 1e-8 and Ba() == B1() and Ra == R1,
                  lambda: dict(case, apparent_minus_geometric=wrap(
                      La() - L1()), series_nutation=dpsi, aberration=ab,
                      library_nutation_longitude=nl))
    mon.cls("apparent-hours-apart", (planet, jde, h))


def case_const(mon, planet):
    """Secular rate of the series against the element tables; Kepler III."""
    from pymeeus.Epoch import Epoch
    mod, cls = get(planet)
    mon.evals += 4
    sec = [A for (A, B, C) in mod.VSOP87_L[1] if B == 0.0 and C == 0.0]
    series_rate = (sec[0] * 1e-8 * 180.0 / math.pi / 10.0) if sec else None
    step = 0.25 if planet in ("Mercury", "Venus", "Earth", "Mars") else 5.0
    e1, e2 = Epoch(J2000 - step), Epoch(J2000 + step)
    la = cls.orbital_elements_mean_equinox(e1)[0]()
    lb = cls.orbital_elements_mean_equinox(e2)[0]()
    rate_date = ((lb - la) % 360.0) / (2 * step) * 36525.0
    ja = cls.orbital_elements_j2000(e1)[0]()
    jb = cls.orbital_elements_j2000(e2)[0]()
    rate_j2000 = ((jb - ja) % 360.0) / (2 * step) * 36525.0
    a = cls.orbital_elements_mean_equinox(Epoch(J2000))[1]
    case = {"planet": planet, "series_L1_rate_deg_per_cy": series_rate,
            "elements_rate_of_date": rate_date,
            "elements_rate_j2000": rate_j2000, "a": a}
    mon.cls("constants", (planet, "const"), case)
    mon.check("series-rate==element-rate", series_rate is not None
              and abs(series_rate / rate_date - 1.0) <= 1e-6, case)
    n = rate_j2000 / 36525.0
    nk = 0.9856076686 / a ** 1.5
    tol = 0.001 if planet in ("Mercury", "Venus", "Earth", "Mars",
                              "Jupiter") else 0.01
    mon.check("kepler-third-law", abs(n / nk - 1.0) <= tol,
              dict(case, n_deg_per_day=n, gauss_n=nk))


CASES = {"tables": case_tables, "history": history.case, "epoch": case_epoch, "walk": case_walk, "second": case_second,
         "const": case_const, "apparent_hours": case_apparent_hours}


def run(mon, spec):
    history.run_cases(mon, ID, spec)
    planet = spec["planet"]
    rng = random.Random(hash((spec["seed"], planet, spec.get("idx", 0),
                              spec.get("era", 0))) & 0xFFFFFFFF)
    if spec["part"] == "const":
        mon.begin("const", [planet])
        case_const(mon, planet)
        return
    if spec["part"] == "epochs":
        if spec["idx"] == 0:
            for jd in (jd_of_year(-2000.0), jd_of_year(4000.0), J2000,
                       J2000 - 1.0, J2000 + 1.0):
                mon.begin("epoch", [planet, jd])
                case_epoch(mon, planet, jd)
            # the series' time argument is zero at J2000.0: instants a
            # fraction of a second to a minute either side of it
            for k in (0.05, 0.5, 1.0, 2.0, 3.0, 5.0, 30.0, 60.0):
                for sgn in (-1.0, 1.0):
                    jd = J2000 + sgn * k / 86400.0
                    mon.begin("epoch", [planet, jd])
                    case_epoch(mon, planet, jd)
                    mon.begin("second", [planet, jd])
                    case_second(mon, planet, jd)
                    mon.cls("within-a-minute-of-J2000", ("j2000", planet,
                                                         jd), [planet, jd])
        for k in range(spec["n"]):
            r = rng.random()
            if r < 0.8:
                y = rng.uniform(-2000.0, 4000.0)
            elif r < 0.9:
                y = rng.uniform(-2000.0, -1900.0)
            else:
                y = rng.uniform(3900.0, 4000.0)
            jd = jd_of_year(y)
            mon.begin("epoch", [planet, jd])
            case_epoch(mon, planet, jd)
            if k % 8 == 0:
                mon.begin("second", [planet, jd])
                case_second(mon, planet, jd)
            if k % 8 == 2:
                h = rng.choice((1.0 / 1440, 20.0 / 1440, 0.125, 0.3, 0.9))
                mon.begin("apparent_hours", [planet, jd, h])
                case_apparent_hours(mon, planet, jd, h)
            if k % 8 == 4:
                # within an arc-minute of the 360 -> 0 passage, where the
                # corrected longitudes are on either side of the origin
                jc = origin_crossing(planet, jd)
                if jd_of_year(-2000.0) <= jc <= jd_of_year(4000.0):
                    rate = 360.0 / PERIOD[planet]
                    for _q in range(3):
                        jx = jc + rng.uniform(-70.0, 70.0) / 3600.0 / rate
                        mon.begin("epoch", [planet, jx])
                        case_epoch(mon, planet, jx)
                        mon.cls("within-70arcsec-of-longitude-origin",
                                ("origin", planet, jx), [planet, jx])
            if k % 16 == 0:
                sv = rng.randrange(1 << 30)
                mon.begin("tables", [planet, jd, sv])
                case_tables(mon, planet, jd, sv)
        return
    # walks
    ndays = int(PERIOD[planet]) + 2
    if not spec["full"]:
        ndays = min(ndays, 2000)
    else:
        ndays = min(ndays, 12000)
    jd0 = float(int(jd_of_year(spec["era"] + rng.uniform(0, 50)))) + 0.5
    mon.begin("walk", [planet, jd0, ndays])
    case_walk(mon, planet, jd0, ndays)
    # short daily walks across the calendar seams (every Epoch(<number>) goes
    # through the calendar): 12 days starting 5 days before, at 0h and at a
    # random time of day
    days = seams.seam_days()
    pick = rng.sample(days, 10 if spec["full"] else 4) + \
        [d for d in days if d[0] in ("first Gregorian day",
                                     "century year 1900")][:3]
    for lab, j0 in pick:
        if jd_of_year(-1999.0) < j0 < jd_of_year(3999.0):
            for off in (0.0, rng.random()):
                mon.begin("walk", [planet, j0 - 5.0 + off, 12])
                case_walk(mon, planet, j0 - 5.0 + off, 12)
                mon.cls("walk-across-calendar-seam", (planet, j0, off),
                        [planet, lab, j0])
