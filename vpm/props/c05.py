"""C05 - celestial coordinate conversions are inverse rotations; separation
metric."""
import math
import random

from vpm.oracles import sphere as sp

ID = "C05"
RULE = ("Seeded generation. Directions: uniform on the sphere; both poles "
        "exactly and at 90 - 10^-k deg (k = 1..12); equator; longitudes 0, "
        "360 - 10^-k and values that make the result land on the 0/360 seam; "
        "obliquity 0..30 deg (incl. 0 and 30); observer latitude -90..90 "
        "(incl. 0 and +-90); hour angle / azimuth 0..360. Each direction goes "
        "forward and back through each of the three conversion pairs in both "
        "orders (great-circle distance between start and end on the sphere); "
        "pairs of directions (random, coincident, 1e-7..1e-3 deg apart, "
        "antipodal, nearly antipodal) go through the same conversion for the "
        "isometry clause and through angular_separation / "
        "relative_position_angle against vector formulas; triples within 5 "
        "deg for circle_diameter. Ecliptical and horizontal conversions are "
        "additionally compared with an explicit rotation of the unit vector. "
        "Non-trivial = within 1e-6 deg of a pole or of the 0/360 seam, pair "
        "closer than 1e-3 deg or farther than 179.9 deg, obliquity or "
        "latitude 0/+-90; distinct by inputs.")
ASSUMPTIONS = [
    "azimuth / hour angle: no range is documented; only |value| < 360 is "
    "required",
    "position angle antisymmetry is checked in the form that is an identity "
    "on the sphere (mirroring the right-ascension difference negates the "
    "angle)",
    "every other conversion call re-uses long-lived Angle objects re-set in "
    "place with set(), the others use fresh objects",
    "vector formulas of vpm/oracles/sphere.py (self-checked at start-up)",
]
EXHAUSTIVE = {"quick": False, "thorough": False}
TOL = 1e-9


def anchors():
    from pymeeus import Coordinates as C
    from pymeeus.Angle import Angle
    return {"equatorial2ecliptical": C.equatorial2ecliptical,
            "ecliptical2equatorial": C.ecliptical2equatorial,
            "equatorial2horizontal": C.equatorial2horizontal,
            "horizontal2equatorial": C.horizontal2equatorial,
            "equatorial2galactic": C.equatorial2galactic,
            "galactic2equatorial": C.galactic2equatorial,
            "circle_diameter": C.circle_diameter,
            "Angle.to_positive": Angle.to_positive}


POINTS = {
    "circle.a-is-d12": ("circle_diameter", "a = d12()"),
    "circle.a-is-d13": ("circle_diameter", "a = d13()"),
    "circle.a-is-d23": ("circle_diameter", "a = d23()"),
    "circle.obtuse": ("circle_diameter", "d = a\n"),
    "circle.circumscribed": ("circle_diameter", "d = (2.0 * a * b * c)"),
    "to_positive.fold": ("Angle.to_positive", "360.0 - abs(self._deg)"),
}
REQUIRED_POINTS = list(POINTS)
REQUIRED_CLAUSES = ["roundtrip.ecliptical", "roundtrip.galactic",
                    "roundtrip.horizontal", "ranges", "isometry",
                    "matches-rotation.ecliptical",
                    "matches-rotation.horizontal", "galactic.anchors",
                    "separation==vector", "separation.symmetric",
                    "position-angle==vector", "position-angle.mirror",
                    "circle_diameter.bounds", "alias-independent"]


def shards(tier, seed):
    mult = 20 if tier == "thorough" else 1
    return [{"name": "s%02d" % i, "idx": i, "n_dir": 25000 * mult,
             "n_pair": 25000 * mult} for i in range(16)]


# ------------------------------------------------------------ generators
def gen_dir(rng):
    """(lon, lat, class)"""
    r = rng.random()
    if r < 0.04:
        # directions on the meridians and parallels that the constants of
        # the galactic transformation single out (the pole of the Galaxy at
        # RA 192.25, Dec 27.4; the node at l = 33, 123), where one argument
        # of an atan2() is an exact zero
        lon = rng.choice((192.25, 12.25, 282.25, 102.25, 123.0, 303.0, 33.0,
                          213.0))
        lat = rng.choice((27.4, -27.4, 62.6, -62.6, rng.uniform(-89, 89),
                          rng.uniform(27.4, 89), rng.uniform(-89, -27.4)))
        return lon, lat, "galactic-axes"
    if r < 0.45:
        z = rng.uniform(-1, 1)
        return rng.uniform(0, 360), math.degrees(math.asin(z)), "uniform"
    if r < 0.7:
        s = rng.choice((-1, 1))
        k = rng.randrange(0, 13)
        lat = s * 90.0 if k == 0 else s * (90.0 - 10.0 ** (-k))
        return rng.choice((0.0, 90.0, 180.0, 270.0, rng.uniform(0, 360))), \
            lat, "pole"
    if r < 0.8:
        return rng.uniform(0, 360), rng.choice((0.0, 1e-15, -1e-15, 1e-9)), \
            "equator"
    k = rng.randrange(1, 15)
    lon = rng.choice((0.0, 360.0 - 10.0 ** (-k), 10.0 ** (-k), 180.0,
                      90.0, 270.0))
    return lon, rng.choice((0.0, -1e-15, 1e-15, rng.uniform(-80, 80))), "seam"


def gen_eps(rng):
    # (a very small obliquity too: the rotation is still a rotation by that
    # angle, not the identity)
    return rng.choice((0.0, 30.0, 23.4392911, 23.44, rng.uniform(0, 30),
                       rng.uniform(22, 24.5), rng.uniform(0, 30),
                       10.0 ** rng.uniform(-10, -3)))


def gen_phi(rng):
    return rng.choice((0.0, 90.0, -90.0, 38.921389, rng.uniform(-90, 90),
                       rng.uniform(-90, 90), 89.999999, -89.9999,
                       rng.choice((-1, 1)) * 10.0 ** rng.uniform(-10, -3),
                       rng.choice((-1, 1))
                       * (90.0 - 10.0 ** rng.uniform(-10, -3))))


def polar_class(mon, lat, ident):
    if abs(abs(lat) - 90.0) < 1e-6:
        mon.cls("within-1e-6-of-pole", ident)


def near_pole(*lats):
    return min(90.0 - abs(v) for v in lats)


# ------------------------------------------------------------- conversions
_POOL = {"n": 0}
_TN = {"n": 0}


def T(v):
    """An Angle holding v; every other one carries a non-default comparison
    tolerance (set_tolerance(), or inherited from the Angle it was copied
    from), which is not part of its value: geometry must not depend on it."""
    from pymeeus.Angle import Angle
    a = Angle(v)
    _TN["n"] += 1
    k = _TN["n"] % 6
    if k == 1:
        a.set_tolerance(1e-3)
    elif k == 3:
        a.set_tolerance(1e-2)
        a = Angle(a)
    elif k == 5:
        a.set_tolerance(0.0)
    return a



def conv(name, lon, lat, par):
    """Run one library conversion; returns (lon', lat') floats."""
    from pymeeus import Coordinates as C
    from pymeeus.Angle import Angle
    # every other call re-uses three long-lived Angle objects that are
    # re-set in place (a caller may legitimately keep and update its
    # objects): results must not depend on the objects' history
    _POOL["n"] += 1
    # one call in three gets the longitude in its other legitimate
    # representation, lon - 360 in (-360, 0): the same direction (only where
    # the subtraction is exact, so that it is the same number of degrees too)
    if _POOL["n"] % 3 == 0 and 0.0 < lon < 360.0 \
            and (lon - 360.0) + 360.0 == lon:
        lon = lon - 360.0
        _POOL["neg"] = _POOL.get("neg", 0) + 1
    if _POOL["n"] % 2:
        if "a" not in _POOL:
            _POOL["a"], _POOL["b"], _POOL["p"] = Angle(1.0), Angle(2.0), \
                Angle(3.0)
        a, b, pa = _POOL["a"], _POOL["b"], _POOL["p"]
        a.set(lon)
        b.set(lat)
        if par is not None:
            pa.set(par)
    else:
        a, b = T(lon), T(lat)
        pa = T(par) if par is not None else None
    if name == "eq2ecl":
        r = C.equatorial2ecliptical(a, b, pa)
    elif name == "ecl2eq":
        r = C.ecliptical2equatorial(a, b, pa)
    elif name == "eq2hor":
        r = C.equatorial2horizontal(a, b, pa)
    elif name == "hor2eq":
        r = C.horizontal2equatorial(a, b, pa)
    elif name == "eq2gal":
        r = C.equatorial2galactic(a, b)
    else:
        r = C.galactic2equatorial(a, b)
    ok_args = (a() == Angle(lon)() and b() == Angle(lat)())
    return r[0](), r[1](), ok_args


PAIRS = {"ecliptical": ("eq2ecl", "ecl2eq"), "galactic": ("eq2gal", "gal2eq"),
         "horizontal": ("eq2hor", "hor2eq")}
POS_RANGE = {"eq2ecl", "ecl2eq", "eq2gal", "gal2eq"}   # longitude in [0, 360)


def rotation_oracle(name, lon, lat, par):
    """Expected direction as a unit vector for the conversions whose rotation
    is unambiguous."""
    v = sp.vec(lon, lat)
    if name == "eq2ecl":
        return sp.rot_x(v, -par)
    if name == "ecl2eq":
        return sp.rot_x(v, par)
    if name == "eq2hor":
        # (H, dec) with x to the south point of the equator, y west, z pole
        # -> (A, h) with x south, y west, z zenith: rotate about y by
        # (90 - phi)
        return sp.rot_y(v, -(90.0 - par))
    if name == "hor2eq":
        return sp.rot_y(v, 90.0 - par)
    return None


POLE_CAP_DEG = 2.5e-6       # sqrt(16 * 2**-53) rad, the asin() floor at a pole


def pole_bound(lats, factor=1.0):
    """Largest direction error (degrees) the asin()-based formulation can
    produce for a point whose smallest polar distance (in the input,
    intermediate or output frame) is pd: 8 ulp / sin(pd), capped at the
    asin floor.  None when no latitude is within 0.01 deg of a pole."""
    pd = min(90.0 - abs(v) for v in lats)
    if pd >= 0.01:
        return None
    if pd <= 0.0:
        return factor * POLE_CAP_DEG
    return factor * min(POLE_CAP_DEG,
                        math.degrees(8 * 2.0 ** -53
                                     / math.sin(math.radians(pd))))


def key_conv(name, err, lats, exc=None, factor=1.0):
    """Classifier for conversion deviations near a pole of the input or
    output frame (asin/tan formulation): keyed only when the observed error
    is within the bound that mechanism can explain."""
    if exc is not None or err is None:
        return None
    b = pole_bound(lats, factor)
    if b is not None and err <= b:
        return "pole.asin-conditioning"
    return None


def case_roundtrip(mon, frame, direction, lon, lat, par):
    """direction 0: forward then inverse; 1: inverse then forward."""
    mon.evals += 1
    f, g = PAIRS[frame]
    if direction == 1:
        f, g = g, f
    case = {"frame": frame, "first": f, "lon": lon, "lat": lat, "par": par}
    ident = ("rt", frame, direction, lon, lat, par)
    polar_class(mon, lat, ident)
    if par in (0.0, 90.0, -90.0, 30.0):
        mon.cls("parameter-0-or-limit", ident)
    try:
        l1, b1, ok1 = conv(f, lon, lat, par)
    except Exception as ex:
        mon.dev("roundtrip." + frame, dict(case, raised=repr(ex)),
                key_conv(f, None, (lat,), ex))
        return
    polar_class(mon, b1, ident)
    if l1 > 359.999999 or l1 < 1e-6:
        mon.cls("result-within-1e-6-of-seam", ident, [f, lon, lat, par, l1])
    lo_ok = (0.0 <= l1 < 360.0) if f in POS_RANGE else (-360.0 < l1 < 360.0)
    mon.check("ranges", lo_ok and -90.0 <= b1 <= 90.0,
              dict(case, result=[l1, b1]))
    mon.check("arguments-unchanged", ok1, case)
    want = rotation_oracle(f, lon, lat, par)
    if want is not None:
        err = sp.sep(sp.vec(l1, b1), want)
        mon.stat("rotation_err_deg(>0.01deg from poles)",
                 err if near_pole(lat, b1) > 0.01 else 0.0, case)
        mon.check("matches-rotation." + frame, err <= TOL,
                  lambda: dict(case, result=[l1, b1], error_deg=err),
                  # the asin() conditioning concerns the latitude that is
                  # computed, not the one given: with an input near a pole of
                  # its own frame the unchanged library is good to 5e-14 deg
                  key_conv(f, err, (b1,)))
    try:
        l2, b2, ok2 = conv(g, l1, b1, par)
    except Exception as ex:
        mon.dev("roundtrip." + frame, dict(case, intermediate=[l1, b1],
                                           raised=repr(ex)),
                key_conv(g, None, (lat, b1), ex))
        return
    # the way back lands on the input: for an input on the 0/360 seam of
    # its frame the returned longitude is where a lost reduction shows
    if l2 > 359.999999 or l2 < 1e-6:
        mon.cls("result-within-1e-6-of-seam", ident, [g, l1, b1, par, l2])
    lo_ok = (0.0 <= l2 < 360.0) if g in POS_RANGE else (-360.0 < l2 < 360.0)
    mon.check("ranges", lo_ok and -90.0 <= b2 <= 90.0,
              dict(case, intermediate=[l1, b1], result_of=g,
                   result=[l2, b2]))
    err = sp.sep_ll(lon, lat, l2, b2)
    mon.stat("roundtrip_err_deg(>0.01deg from poles)",
             err if near_pole(lat, b1) > 0.01 else 0.0, case)
    mon.check("roundtrip." + frame, err <= TOL,
              lambda: dict(case, intermediate=[l1, b1], back=[l2, b2],
                           error_deg=err), key_conv(f, err, (lat, b1, b2)))


def case_isometry(mon, name, lon1, lat1, lon2, lat2, par):
    mon.evals += 1
    case = {"conv": name, "p1": [lon1, lat1], "p2": [lon2, lat2], "par": par}
    try:
        a1, b1, _ = conv(name, lon1, lat1, par)
        a2, b2, _ = conv(name, lon2, lat2, par)
    except Exception as ex:
        mon.dev("isometry", dict(case, raised=repr(ex)),
                key_conv(name, None, (lat1, lat2), ex))
        return
    before = sp.sep_ll(lon1, lat1, lon2, lat2)
    after = sp.sep_ll(a1, b1, a2, b2)
    mon.cls("isometry-pair", ("iso", name, lon1, lat1, lon2, lat2, par))
    mon.check("isometry", abs(before - after) <= TOL,
              lambda: dict(case, before=before, after=after),
              key_conv(name, abs(before - after), (b1, b2), factor=2.0))


def case_separation(mon, lon1, lat1, lon2, lat2):
    from pymeeus import Coordinates as C
    from pymeeus.Angle import Angle
    mon.evals += 1
    case = {"p1": [lon1, lat1], "p2": [lon2, lat2]}
    true = sp.sep_ll(lon1, lat1, lon2, lat2)
    ident = ("sep", lon1, lat1, lon2, lat2)
    if true < 1e-3:
        mon.cls("pair-closer-than-1e-3-deg", ident,
                dict(case, sep=true) if true < 1e-6 else None)
    elif true > 179.9:
        mon.cls("pair-farther-than-179.9-deg", ident, dict(case, sep=true))
    else:
        mon.cls("pair", ident)
    A = T
    try:
        s12 = C.angular_separation(A(lon1), A(lat1), A(lon2), A(lat2))()
        s21 = C.angular_separation(A(lon2), A(lat2), A(lon1), A(lat1))()
    except Exception as ex:
        mon.dev("separation==vector", dict(case, raised=repr(ex)))
        return
    mon.check("separation.symmetric", abs(s12 - s21) <= TOL,
              dict(case, s12=s12, s21=s21))
    if 1e-7 <= true <= 179.999:
        mon.stat("separation_err_deg", abs(s12 - true), case)
        mon.check("separation==vector", abs(s12 - true) <= TOL,
                  dict(case, library=s12, vector=true), key_sep(true, s12))
    mon.check("separation.range", 0.0 <= s12 <= 180.0 + 1e-9,
              dict(case, library=s12))
    # position angle of body 1 with respect to body 2
    if 1e-7 <= true <= 179.999 and abs(lat2) < 89.9999 \
            and abs(lat1) < 89.9999:
        try:
            p = C.relative_position_angle(A(lon1), A(lat1), A(lon2),
                                          A(lat2))()
            pm = C.relative_position_angle(A(2 * lon2 - lon1), A(lat1),
                                           A(lon2), A(lat2))()
        except Exception as ex:
            mon.dev("position-angle==vector", dict(case, raised=repr(ex)))
            return
        want = sp.position_angle(lon1, lat1, lon2, lat2)
        d = abs((p - want + 180.0) % 360.0 - 180.0)
        # the position angle is ill-defined to first order when the pair is
        # very close: its conditioning is 1/sep
        # ... and at 1/sin(sep) near the antipode; 2e-13 deg is a few ulps
        # of a coordinate, which is also the resolution of the vector oracle
        cond = 1e-9 + 2e-13 / abs(math.sin(math.radians(true)))
        mon.stat("position_angle_err/tol", d / cond, case)
        mon.check("position-angle==vector", d <= cond,
                  dict(case, library=p, vector=want))
        dm = abs((p + pm + 180.0) % 360.0 - 180.0)
        mon.check("position-angle.mirror", dm <= 2 * cond,
                  dict(case, p=p, mirrored=pm))


def key_sep(true, got):
    """2*asin(sqrt(hav)) is ill-conditioned towards 180 degrees: an error of
    a few ulp in the haversine becomes ulp / cos(sep/2) in the angle."""
    if true > 179.9:
        bound = math.degrees(8 * 2.0 ** -53
                             / math.cos(math.radians(true) / 2.0))
        if abs(got - true) <= bound:
            return "separation.asin-conditioning-near-180"
    return None


def case_circle(mon, lon, lat, offs):
    """Three bodies within 5 degrees: offsets (dx, dy) in degrees from
    (lon, lat) on the tangent plane."""
    from pymeeus import Coordinates as C
    from pymeeus.Angle import Angle
    mon.evals += 1
    pts = []
    for dx, dy in offs:
        pts.append((lon + dx / max(math.cos(math.radians(lat)), 0.2),
                    lat + dy))
    args = []
    for p in pts:
        args += [Angle(p[0]), Angle(p[1])]
    case = {"points": pts}
    try:
        d = C.circle_diameter(*args)()
    except Exception as ex:
        mon.dev("circle_diameter.bounds", dict(case, raised=repr(ex)))
        return
    seps = [sp.sep_ll(*pts[0], *pts[1]), sp.sep_ll(*pts[0], *pts[2]),
            sp.sep_ll(*pts[1], *pts[2])]
    mx = max(seps)
    mon.cls("three-bodies", ("circ", lon, lat, tuple(map(tuple, offs))))
    if mx < 1e-7:
        # all three at one place: the circle has shrunk to that point
        mon.check("circle_diameter.bounds", abs(d) <= 1e-6,
                  dict(case, diameter=d, max_separation=mx))
        return
    mon.check("circle_diameter.bounds", mx * (1 - 1e-9) - 1e-9 <= d
              <= mx * 2.0 / math.sqrt(3.0) * (1 + 1e-9) + 1e-9,
              dict(case, diameter=d, max_separation=mx))


def case_alias(mon, name, v, par):
    """The same Angle object passed for two (or three) parameters gives what
    separate equal objects give, and is left unchanged."""
    from pymeeus import Coordinates as C
    from pymeeus.Angle import Angle
    mon.evals += 1
    fn = {"eq2ecl": C.equatorial2ecliptical, "ecl2eq": C.ecliptical2equatorial,
          "eq2hor": C.equatorial2horizontal,
          "hor2eq": C.horizontal2equatorial, "eq2gal": C.equatorial2galactic,
          "gal2eq": C.galactic2equatorial, "sep": C.angular_separation,
          "pa": C.relative_position_angle}[name]
    a = Angle(v)
    if name in ("eq2gal", "gal2eq"):
        shared = (a, a)
        fresh = (Angle(v), Angle(v))
    elif name in ("sep", "pa"):
        b = Angle(par)
        shared = (a, a, b, b)
        fresh = (Angle(v), Angle(v), Angle(par), Angle(par))
    else:
        shared = (a, a, a)
        fresh = (Angle(v), Angle(v), Angle(v))
    mon.cls("shared-argument-object", ("alias", name, v, par), [name, v])
    try:
        r1 = fn(*shared)
        r2 = fn(*fresh)
    except Exception as ex:
        try:
            fn(*fresh)
        except Exception:
            return          # refused either way
        mon.dev("alias-independent", {"fn": name, "value": v,
                                      "raised": repr(ex)})
        return
    v1 = [x() for x in r1] if isinstance(r1, tuple) else [r1()]
    v2 = [x() for x in r2] if isinstance(r2, tuple) else [r2()]
    mon.check("alias-independent", v1 == v2 and a() == Angle(v)(),
              {"fn": name, "value": v, "shared": v1, "separate": v2,
               "argument_after": a()})


def case_galactic_anchors(mon):
    mon.evals += 4
    l, b, _ = conv("eq2gal", 192.25, 27.4, None)
    mon.check("galactic.anchors", abs(b - 90.0) <= 1e-5,
              {"north galactic pole (192.25, 27.4) ->": [l, b]})
    a, d, _ = conv("gal2eq", 123.0, 27.4, None)
    mon.check("galactic.anchors", abs(d - 90.0) <= 1e-5,
              {"(l=123, b=27.4) -> celestial pole": [a, d]})
    # galactic centre direction (B1950): l = 0, b = 0 <-> 17h42.4m, -28d55'
    a, d, _ = conv("gal2eq", 0.0, 0.0, None)
    mon.check("galactic.anchors", abs(a - 265.6) < 0.05
              and abs(d + 28.92) < 0.05, {"(l=0, b=0) ->": [a, d]})
    l, b, _ = conv("eq2gal", 265.6, -28.9167, None)
    mon.check("galactic.anchors", (l < 0.1 or l > 359.9) and abs(b) < 0.1,
              {"(265.6, -28.9167) ->": [l, b]})
    mon.cls("galactic-anchor", ("gal-anchors",))


CASES = {"alias": case_alias, "roundtrip": case_roundtrip,
         "isometry": case_isometry,
         "separation": case_separation, "circle": case_circle,
         "galactic_anchors": case_galactic_anchors}


def gen_pair(rng):
    lon1, lat1, _c = gen_dir(rng)
    r = rng.random()
    if r < 0.3:
        lon2, lat2, _c = gen_dir(rng)
    elif r < 0.6:
        d = 10.0 ** rng.uniform(-7.5, -2.5)
        ang = rng.uniform(0, 2 * math.pi)
        lat2 = max(-90.0, min(90.0, lat1 + d * math.sin(ang)))
        lon2 = lon1 + d * math.cos(ang) / max(math.cos(math.radians(lat1)),
                                              1e-3)
    elif r < 0.7:
        lon2, lat2 = lon1, lat1
    elif r < 0.85:
        d = rng.choice((0.0, 10.0 ** rng.uniform(-6, -1)))
        lon2, lat2 = lon1 + 180.0 + d, max(-90.0, min(90.0, -lat1 + d))
    else:
        lon2 = lon1 + rng.uniform(-5, 5)
        lat2 = max(-90.0, min(90.0, lat1 + rng.uniform(-5, 5)))
    return lon1 % 360.0, lat1, lon2 % 360.0, lat2


def run(mon, spec):
    if not sp.self_check():
        raise RuntimeError("sphere self-check failed")
    rng = random.Random(spec["seed"] * 1000003 + spec["idx"])
    mon.begin("galactic_anchors", [])
    case_galactic_anchors(mon)
    frames = list(PAIRS)
    for _ in range(spec["n_dir"]):
        lon, lat, _c = gen_dir(rng)
        frame = rng.choice(frames)
        par = gen_eps(rng) if frame == "ecliptical" else (
            gen_phi(rng) if frame == "horizontal" else None)
        direction = rng.randrange(2)
        p = [frame, direction, lon, lat, par]
        mon.begin("roundtrip", p)
        case_roundtrip(mon, *p)
    names = ["eq2ecl", "ecl2eq", "eq2hor", "hor2eq", "eq2gal", "gal2eq"]
    for _ in range(spec["n_pair"]):
        lon1, lat1, lon2, lat2 = gen_pair(rng)
        name = rng.choice(names)
        par = gen_eps(rng) if "ecl" in name else (
            gen_phi(rng) if "hor" in name else None)
        p = [name, lon1, lat1, lon2, lat2, par]
        mon.begin("isometry", p)
        case_isometry(mon, *p)
        p = [lon1, lat1, lon2, lat2]
        mon.begin("separation", p)
        case_separation(mon, *p)
        if rng.random() < 0.1:
            p = [rng.choice(("eq2ecl", "ecl2eq", "eq2hor", "hor2eq", "eq2gal",
                             "gal2eq", "sep", "pa")),
                 rng.choice((rng.uniform(-89, 89), -1e-15, -20.0, 0.0)),
                 rng.uniform(-80, 80)]
            mon.begin("alias", p)
            case_alias(mon, *p)
        if rng.random() < 0.25:
            k = rng.random()
            if k < 0.12:     # two, or all three, bodies at the same position
                q = (rng.uniform(-2, 2), rng.uniform(-2, 2))
                r = (rng.uniform(-2, 2), rng.uniform(-2, 2))
                offs = rng.choice(([q, q, r], [q, r, q], [r, q, q],
                                   [q, q, q]))
                mon.cls("coincident-bodies", ("co", lon1, lat1, q, r))
            elif k < 0.27:   # a needle that is still acute: two bodies a
                #              hair apart, the third equidistant from both
                dl = 10.0 ** rng.uniform(-7, -3)
                D = rng.uniform(0.5, 4.0) * rng.choice((-1, 1))
                offs = [(-dl / 2, 0.0), (dl / 2, 0.0), (0.0, D)]
                mon.cls("needle-isosceles", ("needle", lon1, lat1, dl, D))
            elif k < 0.4:    # obtuse / nearly collinear
                offs = [(0.0, 0.0), (rng.uniform(1, 4), rng.uniform(-.2, .2)),
                        (rng.uniform(0.3, 0.9), rng.uniform(-.1, .1))]
            else:
                offs = [(rng.uniform(-2.4, 2.4), rng.uniform(-2.4, 2.4))
                        for _i in range(3)]
            rng.shuffle(offs)
            p = [lon1, max(-80.0, min(80.0, lat1)), offs]
            mon.begin("circle", p)
            case_circle(mon, *p)
    mon.hit("longitudes-given-in-(-360,0)", _POOL.get("neg", 0))
    _POOL["neg"] = 0
