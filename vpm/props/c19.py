"""C19 - Easter, Pesach and Moslem-calendar conversions follow their calendar
rules."""
import math
import random

from vpm.oracles import calendars as cal
from vpm.oracles import daycount as dc

ID = "C19"
RULE = ("Finite enumerations. Easter: every year -4712..10000 (both tiers). "
        "Pesach: every year 1..3000 (both tiers). Moslem->civil: every date "
        "of AH years 1..2500 (thorough) or of every 5th AH year from a seeded "
        "offset + years 1..3, 978..1000 (around the 1582 reform) (quick), incl. "
        "month/year lengths observed through the results and the round trip "
        "through gregorian2moslem. Civil->Moslem: every civil date "
        "622-07-16..3000-12-31 (thorough) or every 5th civil year + Julian "
        "century years + 622, 1582..1584 (quick); in quick the first/last two days of every other AH year and the first/last days (+28 Feb, 1 Mar) of every other civil year are also run. Oracles: epact Computus, "
        "molad/dehiyyot Hebrew calendar, tabular Islamic calendar, all via an "
        "independent day counter. Non-trivial = year <= 0, Julian century "
        "year, 1582/1583, date 1..13 March, last day of a Moslem leap year, "
        "Hebrew postponement applied; distinct by (function, date).")
ASSUMPTIONS = [
    "oracles self-checked at start-up on literature dates (Meeus' examples, "
    "Rosh Hashanah 5751/5761/5784, Easter 1818/1943/2038/2285/179/711)",
    "Islamic civil epoch 16 July 622 (Julian) with leap years "
    "2,5,7,10,13,16,18,21,24,26,29 of the 30-year cycle, as the property "
    "states",
]
EXHAUSTIVE = {"quick": False, "thorough": True}


def anchors():
    from pymeeus.Epoch import Epoch
    return {"Epoch.easter": Epoch.easter,
            "Epoch.jewish_pesach": Epoch.jewish_pesach,
            "Epoch.moslem2gregorian": Epoch.moslem2gregorian,
            "Epoch.gregorian2moslem": Epoch.gregorian2moslem}


POINTS = {
    "easter.gregorian": ("Epoch.easter", "f = iint((b + 8.0) / 25.0)"),
    "easter.julian": ("Epoch.easter", "d = (19 * c + 15) % 30"),
    "pesach.j246": ("Epoch.jewish_pesach", "d = iint(q) + 23"),
    "pesach.j1": ("Epoch.jewish_pesach", "d = iint(q) + 24"),
    "pesach.else": ("Epoch.jewish_pesach", "d = iint(q) + 22"),
    "pesach.april": ("Epoch.jewish_pesach", "return (4, d - 31)"),
    "m2g.gregorian": ("Epoch.moslem2gregorian", "alpha = iint((jd"),
    "m2g.julian": ("Epoch.moslem2gregorian", "return Epoch.doy2date(x, j)"),
    "g2m.over354": ("Epoch.gregorian2moslem", "cl = h % 30"),
    "g2m.day355": ("Epoch.gregorian2moslem", "d = 30"),
}
REQUIRED_POINTS = list(POINTS)
REQUIRED_CLAUSES = ["easter==computus", "easter.sunday", "easter.range",
                    "pesach==15-nisan", "pesach.weekday",
                    "m2g==tabular", "g2m(m2g)==id", "m2g.consecutive",
                    "moslem.month-length", "moslem.year-length",
                    "g2m==tabular"]


def shards(tier, seed):
    rng = random.Random(seed)
    out = []
    ey = list(range(-4712, 10001))
    for i in range(4):
        out.append({"name": "easter-%d" % i, "part": "easter",
                    "years": ey[i::4]})
    py = list(range(1, 3001))
    for i in range(2):
        out.append({"name": "pesach-%d" % i, "part": "pesach",
                    "years": py[i::2]})
    if tier == "thorough":
        ah = list(range(1, 2501))
        cy = list(range(622, 3001))
    else:
        off = rng.randrange(5)
        s = set(range(1 + off, 2501, 5)) | {1, 2, 3} | set(range(978, 1001))
        # the Moslem years that overlap a civil century year (leap in the
        # Julian calendar, mostly not in the Gregorian one) always take part
        for cy_ in range(700, 2501, 100):
            h_ = int((cy_ - 622) * 33 / 32)
            s |= {h_ - 1, h_, h_ + 1, h_ + 2}
        ah = sorted(s)
        off = rng.randrange(5)
        s = set(range(622 + off, 3001, 5)) | set(range(700, 1600, 100))
        s |= {622, 623, 1582, 1583, 1584, 3000}
        cy = sorted(s)
    if tier != "thorough":
        out.append({"name": "medges", "part": "medges",
                    "years": [h for h in range(1, 2501) if h not in set(ah)]})
        out.append({"name": "cedges", "part": "cedges",
                    "years": [y for y in range(622, 3001)
                              if y not in set(cy)]})
    n = 12 if tier == "thorough" else 5
    for i in range(n):
        out.append({"name": "m2g-%02d" % i, "part": "m2g", "years": ah[i::n]})
        out.append({"name": "g2m-%02d" % i, "part": "g2m", "years": cy[i::n]})
    return out


def _civil_jdn(t):
    """JDN of a civil (y, m, d) tuple returned by the library, or None if the
    tuple is not a date the civil calendar has."""
    try:
        y, m, d = t
        if int(y) != y or int(m) != m or int(d) != d:
            return None
        return dc.jdn(int(y), int(m), int(d))
    except Exception:
        return None


def case_easter(mon, y):
    from pymeeus.Epoch import Epoch
    mon.evals += 1
    try:
        got = Epoch.easter(y)
    except Exception as ex:
        mon.dev("easter==computus", {"year": y, "raised": repr(ex)})
        return
    import decimal
    try:
        with decimal.localcontext() as ctx:
            ctx.prec = 3
            ctx.rounding = decimal.ROUND_DOWN
            got3 = Epoch.easter(y)
    except Exception as ex:
        got3 = repr(ex)
    mon.check("independent-of-decimal-context", got3 == got,
              lambda: {"function": "easter", "year": y,
                       "default_context": list(got), "prec=3": repr(got3)})
    want = cal.easter(y)
    ident = ("easter", y)
    if y <= 0:
        mon.cls("easter.year<=0", ident, [y, list(got)] if y % 977 == 0
                else None)
    if y % 100 == 0 and y < 1582:
        mon.cls("julian-century-year", ident)
    if y in (1582, 1583):
        mon.cls("reform-year", ident, [y, list(got)])
    if want in ((3, 22), (4, 25)):
        mon.cls("easter.extreme-date", ident, [y, list(want)])
    mon.check("easter==computus", tuple(got) == want,
              {"year": y, "easter": list(got), "computus": list(want)})
    m, d = got
    mon.check("easter.range", (m == 3 and 22 <= d <= 31)
              or (m == 4 and 1 <= d <= 25), {"year": y, "easter": [m, d]})
    n = _civil_jdn((y, m, d))
    wd = None if n is None else (n + 1) % 7
    try:
        lib_wd = Epoch(y, m, d).dow()
    except Exception as ex:
        lib_wd = repr(ex)
    mon.check("easter.sunday", wd == 0 and lib_wd == 0,
              {"year": y, "easter": [m, d], "weekday_daycounter": wd,
               "weekday_library": lib_wd})


def case_pesach(mon, y):
    from pymeeus.Epoch import Epoch
    mon.evals += 1
    try:
        got = Epoch.jewish_pesach(y)
    except Exception as ex:
        mon.dev("pesach==15-nisan", {"year": y, "raised": repr(ex)})
        return
    wy, wm, wd_, n = cal.pesach(y)
    ident = ("pesach", y)
    if cal._delay(y + 3761) or cal._delay(y + 3760):
        mon.cls("hebrew-postponement", ident, [y, list(got)]
                if y % 50 == 0 else None)
    if y % 100 == 0 and y < 1582:
        mon.cls("julian-century-year", ident)
    if y > 1582:
        mon.cls("pesach.gregorian-era", ident)
    if y in (1582, 1583):
        mon.cls("reform-year", ident, [y, list(got)])
    mon.check("pesach==15-nisan", wy == y and tuple(got) == (wm, wd_),
              {"year": y, "pesach": list(got), "15 Nisan": [wy, wm, wd_]},
              key_pesach(y))
    # the same call with the thread's decimal context at 3 digits, rounding
    # down: a date does not depend on the numeric context of the host
    # application
    import decimal
    try:
        with decimal.localcontext() as ctx:
            ctx.prec = 3
            ctx.rounding = decimal.ROUND_DOWN
            got3 = Epoch.jewish_pesach(y)
    except Exception as ex:
        got3 = repr(ex)
    mon.check("independent-of-decimal-context", got3 == got,
              lambda: {"function": "jewish_pesach", "year": y,
                       "default_context": list(got), "prec=3": repr(got3)})
    gn = _civil_jdn((y,) + tuple(got))
    wd = None if gn is None else (gn + 1) % 7
    mon.check("pesach.weekday", wd in (0, 2, 4, 6),
              {"year": y, "pesach": list(got), "weekday": wd}, key_pesach(y))


def key_pesach(y):
    return None


def case_moslem_year(mon, h):
    """Every date of Moslem year h through moslem2gregorian and back."""
    from pymeeus.Epoch import Epoch
    prev = None
    first_of_month = {}
    leap = cal.islamic_leap(h)
    for m in range(1, 13):
        for d in range(1, cal.islamic_month_len(h, m) + 1):
            mon.evals += 1
            ident = ("m2g", h, m, d)
            want_n = cal.islamic_jdn(h, m, d)
            want = dc.from_jdn(want_n)
            try:
                got = Epoch.moslem2gregorian(h, m, d)
            except Exception as ex:
                mon.dev("m2g==tabular", {"moslem": [h, m, d],
                                         "raised": repr(ex)})
                prev = None
                continue
            wy = want[0]
            if wy % 100 == 0 and wy < 1582:
                mon.cls("julian-century-year", ident)
            if wy in (1582, 1583):
                mon.cls("reform-year", ident, [[h, m, d], list(got)]
                        if d == 1 else None)
            if want[1] == 3 and want[2] <= 13:
                mon.cls("civil-1..13-march", ident)
            if leap and m == 12 and d == 30:
                mon.cls("last-day-of-moslem-leap-year", ident,
                        [[h, m, d], list(got)])
            ok = (tuple(got) == want)
            mon.check("m2g==tabular", ok,
                      lambda: {"moslem": [h, m, d], "civil": list(got),
                               "tabular": list(want)})
            gn = _civil_jdn(got)
            if d == 1:
                first_of_month[m] = gn
            if prev is not None:
                mon.check("m2g.consecutive",
                          gn is not None and gn == prev + 1,
                          lambda: {"moslem": [h, m, d], "civil": list(got),
                                   "jdn": gn, "previous_jdn": prev})
            prev = gn
            # round trip through the library's own inverse
            try:
                back = Epoch.gregorian2moslem(*got)
            except Exception as ex:
                back = repr(ex)
            mon.check("g2m(m2g)==id", back == (h, m, d),
                      lambda: {"moslem": [h, m, d], "civil": list(got),
                               "back": back}, lambda: key_g2m(got, back,
                                                              (h, m, d)))
    # lengths as observed through the library's results
    try:
        nxt = _civil_jdn(Epoch.moslem2gregorian(h + 1, 1, 1))
    except Exception:
        nxt = None
    first_of_month[13] = nxt
    for m in range(1, 13):
        a, b = first_of_month.get(m), first_of_month.get(m + 1)
        ln = None if (a is None or b is None) else b - a
        mon.check("moslem.month-length", ln in (29, 30),
                  {"moslem_month": [h, m], "observed_length": ln})
    a, b = first_of_month.get(1), nxt
    ln = None if (a is None or b is None) else b - a
    mon.check("moslem.year-length", ln == (355 if leap else 354),
              {"moslem_year": h, "observed_length": ln, "leap": leap})


def key_g2m(civil, got, want):
    return None


def case_civil_year(mon, y):
    """Every civil date of year y (from 622-07-16) through gregorian2moslem."""
    from pymeeus.Epoch import Epoch
    for m, d, j0, wd, doy in dc.walk_year(y):
        if (y, m, d) < (622, 7, 16):
            continue
        mon.evals += 1
        n = int(j0 + 0.5)
        want = cal.islamic_from_jdn(n)
        ident = ("g2m", y, m, d)
        if y % 100 == 0 and y < 1582:
            mon.cls("julian-century-year", ident)
        if y in (1582, 1583):
            mon.cls("reform-year", ident)
        if m == 3 and d <= 13:
            mon.cls("civil-1..13-march", ident)
        if want[1] == 12 and want[2] == 30:
            mon.cls("last-day-of-moslem-leap-year", ident,
                    [[y, m, d], list(want)])
        try:
            got = Epoch.gregorian2moslem(y, m, d)
        except Exception as ex:
            got = repr(ex)
        mon.check("g2m==tabular", got == want,
                  lambda: {"civil": [y, m, d], "moslem": got,
                           "tabular": list(want)},
                  lambda: key_g2m((y, m, d), got, want))
        # the day as get_date() hands it back: a float, with or without a
        # time of day - still that civil day
        if d % 3 == 0:
            # ... up to the last float before the next day
            fd = (d + 0.0, d + 0.25, d + 0.5, d + 0.75, d + 0.999,
                  d + 0.9999999999, d + 0.999999999999,
                  math.nextafter(d + 1.0, 0.0))[(d // 3 + m + y) % 8]
            mon.evals += 1
            try:
                gotf = Epoch.gregorian2moslem(y, m, fd)
            except Exception as ex:
                gotf = repr(ex)
            mon.check("g2m.float-day", gotf == got,
                      lambda: {"civil": [y, m, fd], "moslem": gotf,
                               "with_integer_day": got})


def case_moslem_edges(mon, h):
    """First and last two days of Moslem year h (quick tier, years that are
    not walked in full): where the year/cycle wrap-arounds sit."""
    from pymeeus.Epoch import Epoch
    last = cal.islamic_month_len(h, 12)
    for (m, d) in ((1, 1), (1, 2), (12, last - 1), (12, last)):
        mon.evals += 1
        want = dc.from_jdn(cal.islamic_jdn(h, m, d))
        mon.cls("moslem-year-edge", ("m2g", h, m, d))
        try:
            got = Epoch.moslem2gregorian(h, m, d)
            back = Epoch.gregorian2moslem(*got)
        except Exception as ex:
            got = back = repr(ex)
        mon.check("m2g==tabular", isinstance(got, tuple)
                  and tuple(got) == want,
                  lambda: {"moslem": [h, m, d], "civil": got,
                           "tabular": list(want)})
        mon.check("g2m(m2g)==id", back == (h, m, d),
                  lambda: {"moslem": [h, m, d], "civil": got, "back": back})


def case_civil_edges(mon, y):
    """First and last two days of civil year y through gregorian2moslem."""
    from pymeeus.Epoch import Epoch
    for (m, d) in ((1, 1), (1, 2), (2, 28), (3, 1), (12, 30), (12, 31)):
        if (y, m, d) < (622, 7, 16):
            continue
        mon.evals += 1
        want = cal.islamic_from_jdn(dc.jdn(y, m, d))
        mon.cls("civil-year-edge", ("g2m", y, m, d))
        try:
            got = Epoch.gregorian2moslem(y, m, d)
        except Exception as ex:
            got = repr(ex)
        mon.check("g2m==tabular", got == want,
                  lambda: {"civil": [y, m, d], "moslem": got,
                           "tabular": list(want)})


CASES = {"moslem_edges": case_moslem_edges, "civil_edges": case_civil_edges,
         "easter": case_easter, "pesach": case_pesach,
         "moslem_year": case_moslem_year, "civil_year": case_civil_year}


def ambient(sv):
    """A few unrelated, documented calls of the kind a program makes between
    two calendar conversions (leap-year questions and February dates in both
    calendars, days of the year).  Their answers are not judged here (C16,
    C01 do); they are made so that whatever the library keeps between calls
    has been filled by somebody else before the conversion under test."""
    from pymeeus.Epoch import Epoch
    rng = random.Random(sv)
    for _ in range(rng.randrange(1, 5)):
        y = rng.choice((rng.choice((1700, 1800, 1900, 2100, 2200, 2300, 2500)),
                        rng.choice((2000, 2400, 1600)),
                        rng.randrange(1, 16) * 100,
                        -rng.randrange(0, 48) * 100,
                        rng.randrange(-4712, 6000)))
        op = rng.randrange(5)
        try:
            if op == 0:
                Epoch.is_leap(y)
            elif op == 1:
                Epoch(y, 2, 28.5).leap()
            elif op == 2:
                Epoch.get_doy(y, 3, 1)
            elif op == 3:
                Epoch.doy2date(y, 60)
            else:
                Epoch(y, 3, 1).doy()
        except Exception:
            pass


def warmup(order):
    """Leap-year questions about every century year, the Gregorian ones first
    or the Julian ones first: what a long-running program has asked before
    it converts a date."""
    from pymeeus.Epoch import Epoch
    g = list(range(1600, 6001, 100))
    j = list(range(-4700, 1600, 100))
    for y in (g + j if order == "gregorian-first" else j + g):
        Epoch.is_leap(y)


def case_after_ambient(mon, kind, y, sv, order="none"):
    if order != "none":
        warmup(order)
    ambient(sv)
    mon.cls("after-unrelated-calls", ("amb", kind, y))
    CASES[kind](mon, y)


CASES["after_ambient"] = case_after_ambient
_PART = {"medges": "moslem_edges", "cedges": "civil_edges",
         "easter": "easter", "pesach": "pesach", "m2g": "moslem_year",
         "g2m": "civil_year"}


def run(mon, spec):
    if not (dc.self_check() and cal.self_check()):
        raise RuntimeError("oracle self-check failed")
    kind = _PART[spec["part"]]
    years = list(spec["years"])
    # the order of the queries is part of the workload: a result must not
    # depend on which years were asked for before.  Shuffled by the run's
    # seed; the thorough tier adds a descending and an ascending pass.
    rng = random.Random("%s/%s" % (spec.get("seed", 0), spec["name"]))
    rng.shuffle(years)
    # what the process has been asked before: alternates between the shards
    order = ("gregorian-first", "julian-first", "none")[
        sum(map(ord, spec["name"])) % 3]
    passes = [years]
    if spec.get("tier") == "thorough" and kind in ("easter", "pesach"):
        passes += [sorted(years, reverse=True), sorted(years)]
    for ys in passes:
        for y in ys:
            if rng.random() < 0.5:
                sv = rng.randrange(1 << 30)
                mon.begin("after_ambient", [kind, y, sv, order])
                case_after_ambient(mon, kind, y, sv, order)
                continue
            mon.begin(kind, [y])
            CASES[kind](mon, y)
