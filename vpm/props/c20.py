"""C20 - calls are side-effect free and total on their documented domain."""
import copy
import os
import hashlib
import importlib
import inspect
import json
import math
import pkgutil
import random

ID = "C20"
RULE = ("Every public function, static method, instance method and "
        "constructor of the 19 pymeeus modules found by introspection "
        "(names starting with '_', main, print_me and the wall-clock "
        "dependent utc2local excluded) is wrapped by a universal monitor: "
        "value snapshots of every argument (Angle, Epoch, Interpolation, "
        "CurveFitting, Ellipsoid fields; lists/tuples recursively) before "
        "and after the call, result type/arity/finiteness, exception class, "
        "and a digest of every module-level table and constant at quiescent "
        "points. Arguments come from a signature-driven generator table "
        "(parameter name -> in-domain generator, with per-function overrides "
        "for validity ranges). Per target: N well-typed calls (quick 60, "
        "thorough 400), each repeated on deep copies (equal arguments -> "
        "equal results), history pairs f(a); g(b); f(a') with g drawn from "
        "the whole API, ill-typed probes (None, str, complex, list for a "
        "scalar, missing and extra positional) on every parameter, and "
        "copy-constructor isolation; the repository's own 250 tests run as one "
        "more workload with the module digest taken after every test. "
        "Non-trivial = call with an argument "
        "object shared between two parameters, list/tuple argument, module "
        "constant passed as argument, ill-typed probe; distinct by (target, "
        "arguments).")
ASSUMPTIONS = [
    "documented in-place mutators (Angle.set/set_radians/set_ra/"
    "set_tolerance/to_positive, Epoch.set, Interpolation.set/set_tolerance, "
    "CurveFitting.set, Earth.set, Minor.set) may change their receiver",
    "refusals that other properties already own as findings (C13 'Invalid "
    "interval', C09 near-parabolic 'No convergence') are referenced, not "
    "re-judged",
    "a target for which no in-domain generator could be written is listed "
    "in the evidence (targets_without_generator) and not claimed",
]
EXHAUSTIVE = {"quick": False, "thorough": False}
J2000 = 2451545.0
MUTATORS = {"Angle.set", "Angle.set_radians", "Angle.set_ra",
            "Angle.set_tolerance", "Angle.to_positive", "Epoch.set",
            "Interpolation.set", "Interpolation.set_tolerance",
            "CurveFitting.set", "Earth.set", "Minor.set", "Angle.__init__",
            "Epoch.__init__", "Interpolation.__init__",
            "CurveFitting.__init__", "Earth.__init__", "Minor.__init__",
            "Ellipsoid.__init__", "Sun.__init__"}
RETURNS_ARGUMENT = {"Epoch.Epoch.check_input_date"}
RETURNS_NONE = {"set", "set_radians", "set_ra", "set_tolerance", "__init__"}
EXCLUDE = {"main", "print_me", "utc2local"}
EPOCH_PARAMS = ("epoch", "start_epoch", "final_epoch", "epoch0",
                "equinox_epoch", "t")
LAT_PARAMS = ("latitude", "declination", "geo_latitude", "obs_lat", "lat",
              "dec", "delta", "delta1", "delta2", "delta3", "delta_star",
              "delta_star1", "delta_star2", "start_dec", "start_lat",
              "elevation", "lat1", "lat2", "delta1_1", "delta1_2",
              "delta1_3", "delta2_1", "delta2_2", "delta2_3",
              "apparent_elevation", "true_elevation")
LON_PARAMS = ("longitude", "right_ascension", "hour_angle", "azimuth",
              "alpha", "alpha1", "alpha2", "alpha3", "alpha_star",
              "alpha_star1", "alpha_star2", "start_ra", "start_lon", "ra",
              "local_sidereal_time", "sidereal_time", "sun_lon", "lon0",
              "arg0", "omega", "w", "theta0", "lon1", "lon2", "alpha1_1",
              "alpha1_2", "alpha1_3", "alpha2_1", "alpha2_2", "alpha2_3",
              "mean_anomaly")


def anchors():
    from pymeeus.Angle import Angle
    from pymeeus.Epoch import Epoch
    return {"Angle.set": Angle.set, "Epoch.set": Epoch.set,
            "Epoch.check_input_date": Epoch.check_input_date}


POINTS = {}
REQUIRED_CLAUSES = ["args-unchanged", "module-tables-unchanged",
                    "equal-args-equal-results", "history-independent",
                    "total-on-domain", "result-finite-and-typed",
                    "illtyped->TypeError|ValueError", "copies-independent",
                    "out-of-range->TypeError|ValueError|value",
                    "reused-argument-objects", "results-own-their-state",
                    "result-is-not-an-argument-object", "public-api-present",
                    "interleaved-calls==sequential", "int-form==float-form",
                    "args-unchanged-during-call",
                    "independent-of-decimal-context",
                    "explicit-defaults==omitted", "angle-form==number-form",
                    "uneven-tables->ValueError",
                    "undocumented-name->ValueError"]


# ------------------------------------------------------------------ discovery
def _unwrapped(f):
    """The function behind decorators that keep __wrapped__ (functools.wraps,
    lru_cache): a decorated public function is still a public function."""
    seen = 0
    while hasattr(f, "__wrapped__") and seen < 8:
        f = f.__wrapped__
        seen += 1
    return f


def discover():
    """[(qualified name, module, class or None, attribute name, kind)]"""
    import pymeeus
    out = []
    for m in sorted(x.name for x in pkgutil.iter_modules(pymeeus.__path__)):
        mod = importlib.import_module("pymeeus." + m)
        for name, obj in sorted(vars(mod).items()):
            if name.startswith("_") or name in EXCLUDE:
                continue
            if inspect.isfunction(_unwrapped(obj)) and \
                    _unwrapped(obj).__module__ == mod.__name__:
                out.append((m + "." + name, m, None, name, "func"))
            elif inspect.isclass(obj) and obj.__module__ == mod.__name__:
                for an, a in sorted(vars(obj).items()):
                    if (an.startswith("_") and an != "__init__") \
                            or an in EXCLUDE:
                        continue
                    f = a.__func__ if isinstance(a, (staticmethod,
                                                     classmethod)) else a
                    if inspect.isfunction(_unwrapped(f)):
                        kind = "static" if isinstance(a, staticmethod) \
                            else "inst"
                        out.append((m + "." + name + "." + an, m, name, an,
                                    kind))
    return out


def shards(tier, seed):
    import sys
    from vpm import env
    env.import_repo()
    targets = discover()
    mods = sorted(set(t[1] for t in targets))
    n = 400 if tier == "thorough" else 60
    out = [{"name": "mod-" + m, "module": m, "ncalls": n,
            "npairs": 40 if tier != "thorough" else 600} for m in mods]
    out.append({"name": "copies", "module": "__copies__", "ncalls": n,
                "npairs": 0})
    out.append({"name": "suite", "module": "__suite__", "ncalls": 0,
                "npairs": 0})
    for k in range(8 if tier == "thorough" else 2):
        out.append({"name": "orders-%d" % k, "module": "__orders__",
                    "ncalls": 1500 if tier == "thorough" else 500,
                    "npairs": 0})
    for k in range(4 if tier == "thorough" else 1):
        out.append({"name": "threads-%d" % k, "module": "__threads__",
                    "ncalls": 1500 if tier == "thorough" else 200,
                    "npairs": 0})
    return out


# ------------------------------------------------------------------ snapshots
class KW(dict):
    """Keyword arguments, carried as the last element of an argument list."""


def ap(f, a):
    """f(*a), with a trailing KW unpacked as keywords."""
    if a and isinstance(a[-1], KW):
        return f(*a[:-1], **a[-1])
    return f(*a)


def snap(x, depth=0):
    """Value snapshot of an argument / result (hashable, comparable)."""
    if depth > 5:
        return "..."
    t = type(x).__name__
    if x is None or isinstance(x, (bool, int, str)):
        return (t, x)
    if isinstance(x, float):
        return (t, x.hex() if x == x else "nan")
    if isinstance(x, complex):
        return (t, repr(x))
    if isinstance(x, (list, tuple)):
        return (t, tuple(snap(v, depth + 1) for v in x))
    if isinstance(x, dict):
        return (t, tuple(sorted((repr(k), snap(v, depth + 1))
                                for k, v in x.items())))
    if t == "Angle":
        return (t, snap(x._deg), snap(x._tol))
    if t == "Epoch":
        return (t, snap(x._jde))
    if t == "Interpolation":
        return (t, snap(x._x, depth + 1), snap(x._y, depth + 1),
                snap(x._table, depth + 1), snap(x._tol))
    if t == "CurveFitting":
        return (t, snap(x._x, depth + 1), snap(x._y, depth + 1))
    if t == "Ellipsoid":
        return (t, snap(x._a), snap(x._f), snap(x._omega))
    if t == "Earth":
        return (t, snap(x._ellip))
    if t == "Minor":
        return (t, snap(x._q), snap(x._e), snap(x._i), snap(x._omega),
                snap(x._w), snap(x._t))
    if callable(x):
        return ("callable", getattr(x, "__name__", "?"))
    if t in ("Sun", "Moon", "Venus", "Mars", "Jupiter", "Saturn", "Uranus",
             "Neptune", "Mercury", "Pluto", "JupiterMoons"):
        return (t, tuple(sorted((k, snap(v, depth + 1))
                                for k, v in vars(x).items())))
    return (t, repr(x))


def finite(x, depth=0):
    """None if every float inside x is finite and nothing is a non-value,
    else a description."""
    if depth > 5:
        return None
    if x is None:
        return "None"
    if isinstance(x, float):
        return None if math.isfinite(x) else repr(x)
    if isinstance(x, complex):
        return "complex"
    if isinstance(x, (list, tuple)):
        for v in x:
            r = finite(v, depth + 1)
            if r:
                return r
        return None
    t = type(x).__name__
    if t == "Angle":
        return finite(x._deg)
    if t == "Epoch":
        return finite(float(x._jde))
    return None


def shape(x, depth=0):
    if isinstance(x, (list, tuple)) and depth < 2:
        return (type(x).__name__, len(x))
    t = type(x).__name__
    return "number" if t in ("int", "float") else t


_digest_cache = {}


def module_digest():
    """{module name: digest of its module-level tables / constants} for every
    loaded pymeeus module."""
    import sys
    out = {}
    for name in sorted(sys.modules):
        if not name.startswith("pymeeus."):
            continue
        mod = sys.modules[name]
        h = hashlib.blake2b(digest_size=16)
        for k in sorted(vars(mod)):
            v = vars(mod)[k]
            if k.startswith("__") or inspect.ismodule(v):
                continue
            if inspect.isclass(v):
                # data attributes kept on a class of this module (a table
                # shared by all calls), and the default values of its methods
                if getattr(v, "__module__", None) != name:
                    continue
                for ak in sorted(vars(v)):
                    av = vars(v)[ak]
                    f = av.__func__ if isinstance(
                        av, (staticmethod, classmethod)) else av
                    if inspect.isroutine(f):
                        d = getattr(f, "__defaults__", None)
                        if d:
                            h.update((k + "." + ak + ".defaults").encode())
                            h.update(repr(snap(list(d))).encode())
                        continue
                    if ak.startswith("__") or isinstance(av, property):
                        continue
                    h.update((k + "." + ak).encode())
                    h.update(repr(snap(av)).encode())
                continue
            if inspect.isroutine(v):
                d = getattr(v, "__defaults__", None)
                if d and getattr(v, "__module__", None) == name:
                    h.update((k + ".defaults").encode())
                    h.update(repr(snap(list(d))).encode())
                continue
            h.update(k.encode())
            h.update(repr(snap(v)).encode())
        out[name] = h.hexdigest()
    # tables of the standard library a calendar routine may be tempted to
    # borrow (and patch)
    import calendar
    h = hashlib.blake2b(digest_size=16)
    h.update(repr((list(calendar.mdays), list(calendar.month_name),
                   list(calendar.month_abbr), list(calendar.day_name))
                  ).encode())
    out["stdlib.calendar"] = h.hexdigest()
    return out


def digest_changes(before, after):
    """Modules present in both snapshots whose digest differs (a module that
    was imported in between is not a change)."""
    return sorted(m for m in before if m in after and before[m] != after[m])


# ----------------------------------------------------------------- generators
def jd_of_year(y):
    return J2000 + (y - 2000.0) * 365.25


def g_epoch(rng, lo=-1990.0, hi=3990.0):
    from pymeeus.Epoch import Epoch
    return Epoch(jd_of_year(rng.uniform(lo, hi)))


def g_angle(rng, lo, hi):
    from pymeeus.Angle import Angle
    return Angle(rng.uniform(lo, hi))


def gen_param(rng, qual, p):
    """In-domain value for parameter p of target qual, or raises KeyError."""
    from pymeeus.Angle import Angle
    from pymeeus.Epoch import Epoch
    base = qual.split(".")[-1]
    # ---- per-function overrides
    if qual.startswith("Pluto."):
        if p == "epoch":
            return g_epoch(rng, 1886.0, 2098.0)
    if base == "rise_set":
        if p == "latitude":
            return g_angle(rng, -60, 60)
        if p == "longitude":
            return g_angle(rng, -180, 180)
        if p == "altitude":
            return rng.choice((0.0, 520.0, 2000.0))
    if base == "get_equinox_solstice":
        if p == "year":
            return rng.randrange(-1000, 3001)
        if p == "target":
            return rng.choice(("spring", "summer", "autumn", "winter"))
    if base == "moon_phase" and p == "target":
        return rng.choice(("new", "first", "full", "last"))
    if base == "moon_perigee_apogee" and p == "target":
        return rng.choice(("perigee", "apogee"))
    if base == "moon_passage_nodes" and p == "target":
        return rng.choice(("ascending", "descending"))
    if base == "moon_maximum_declination" and p == "target":
        return rng.choice(("northern", "southern"))
    if base in ("easter", "jewish_pesach") and p == "year":
        return rng.randrange(1, 3000)
    if base == "moslem2gregorian":
        return {"year": rng.randrange(1, 2500), "month": rng.randrange(1, 13),
                "day": rng.randrange(1, 30)}[p]
    if base == "gregorian2moslem":
        return {"year": rng.randrange(623, 3000),
                "month": rng.randrange(1, 13), "day": rng.randrange(1, 29)}[p]
    if base in ("is_julian", "leap_seconds", "tt2ut", "is_leap", "get_doy",
                "doy2date"):
        if p in ("year", "yyyy"):
            return rng.randrange(-2000, 3000)
        if p in ("month", "mm"):
            return rng.randrange(1, 13)
        if p in ("day", "dd"):
            return rng.randrange(1, 29)
        if p == "doy":
            return rng.randrange(1, 366)
    if base == "get_month":
        if p == "month":
            return rng.choice((rng.randrange(1, 13), "Feb", "august"))
        if p == "as_string":
            return rng.random() < 0.5
    if base == "dow" and p == "as_string":
        return rng.random() < 0.5
    if base == "apparent_sidereal_time":
        return {"true_obliquity": rng.uniform(23.0, 23.9),
                "nutation_longitude": rng.uniform(-0.005, 0.005)}[p]
    if base in ("reduce_deg", "deg2dms") and p == "deg":
        return rng.uniform(-1000, 1000)
    if base in ("reduce_dms", "dms2deg"):
        return {"degrees": rng.randrange(0, 400), "minutes":
                rng.uniform(0, 80), "seconds": rng.uniform(0, 80)}[p]
    if base in ("dms_str", "ra_str"):
        return {"fancy": rng.random() < 0.5, "n_dec": rng.randrange(-1, 6)}[p]
    if base == "set_tolerance" and p == "tol":
        return 10.0 ** rng.randrange(-12, -6)
    if base == "set_radians" and p == "rads":
        return rng.uniform(-10, 10)
    if base in ("velocity",):
        return {"r": rng.choice((rng.uniform(0.3, 0.55), 0.3, 0.55)),
                "a": edge(rng, 0.3, 40.0)}[p]
    if base == "diurnal_path_horizon":
        return {"declination": g_angle(rng, -20, 20),
                "geo_latitude": g_angle(rng, -60, 60)}[p]
    if base in ("velocity_perihelion", "velocity_aphelion", "length_orbit"):
        return {"e": edge(rng, 0.0, 0.97), "a": edge(rng, 0.3, 40.0)}[p]
    if base == "kepler_equation" and p == "eccentricity":
        return edge(rng, 0.0, 0.99)
    if base == "passage_nodes_elliptic":
        if p == "e":
            return edge(rng, 0.0, 0.95)
        if p == "a":
            return edge(rng, 0.4, 30.0)
    if base == "passage_nodes_parabolic" and p == "q":
        return edge(rng, 0.2, 5.0)
    if base in ("phase_angle", "illuminated_fraction", "magnitude"):
        if p == "sun_dist":
            return rng.uniform(1.5, 30.0)
        if p == "earth_dist":
            return rng.uniform(1.2, 29.0)
        if p == "sun_earth_dist":
            return rng.uniform(0.99, 1.01)
        if p == "phase_angle":
            return g_angle(rng, 0, 170)
        if p == "delta_U":
            return g_angle(rng, -20, 20)
        if p == "B":
            return g_angle(rng, -26, 26)
    if base == "motion_in_space":
        if p == "distance":
            return rng.uniform(1.0, 100.0)
        if p == "velocity":
            return rng.uniform(-100.0, 100.0)
        if p == "time":
            return rng.uniform(-5000.0, 5000.0)
    if base == "times_rise_transit_set":
        if p == "latitude":
            return g_angle(rng, -50, 50)
        if p == "h0":
            return Angle(-0.5667)
        if p == "delta_t":
            return 56.0
        if p in ("delta1", "delta2", "delta3"):
            return g_angle(rng, -30, 30)
    if base in ("refraction_apparent2true", "refraction_true2apparent"):
        if p in ("apparent_elevation", "true_elevation"):
            return g_angle(rng, 0.5, 89)
        if p == "pressure":
            return rng.uniform(900.0, 1050.0)
        if p == "temperature":
            return rng.uniform(-20.0, 35.0)
    if base == "orbital_equinox2equinox" and p == "i0":
        return g_angle(rng, 1.0, 170.0)
    if base == "p_motion_equa2eclip" and p in ("p_motion_ra",
                                               "p_motion_dec"):
        return g_angle(rng, -0.003, 0.003)
    if base in ("parallax_correction", "parallax_ecliptical"):
        if p == "distance":
            return rng.uniform(0.0025, 30.0)
        if p == "semidiameter":
            return g_angle(rng, 0.001, 0.3)
        if p == "height":
            return rng.choice((0.0, 1706.0))
    if base in ("rho_sinphi", "rho_cosphi") and p == "height":
        return rng.choice((0.0, 1706.0, 8000))
    if base == "distance" and qual.startswith("Earth."):
        v = {"lon1": rng.uniform(-180, 180), "lat1": rng.uniform(-89, 89),
             "lon2": rng.uniform(-180, 180), "lat2": rng.uniform(-89, 89)
             }[p]
        # number or Angle, each argument on its own
        return rng.choice((v, Angle(v), float(int(v)), int(v)))
    if base in ("rho", "rp", "rm", "linear_velocity") and p == "latitude":
        return rng.choice((rng.uniform(-90, 90), g_angle(rng, -90, 90)))
    if qual.startswith("Earth.Earth.rho_") and p == "latitude":
        return rng.choice((rng.uniform(-90, 90), g_angle(rng, -90, 90)))
    if base == "beginning_synodic_rotation" and p == "number":
        return rng.randrange(1, 3000)
    if base == "get_ordinal_suffix" and p == "ordinal":
        return rng.randrange(0, 200)
    if base == "iint" and p == "number":
        return rng.uniform(-1e6, 1e6)
    if base in ("root", "minmax", "derivative"):
        raise KeyError(p)          # handled by instance fixtures
    if base == "rectangular_positions_jovian_equatorial":
        if p in ("solar", "do_correction"):
            return rng.random() < 0.5
    if base == "check_phenomena":
        if p == "check_all":
            return True
        if p == "i_sat":
            return 0
    # ---- generic by parameter name
    if p in EPOCH_PARAMS:
        return g_epoch(rng)
    if p in LAT_PARAMS:
        return g_angle(rng, -85, 85)
    if p == "omega" and base.startswith("passage_nodes"):
        return g_angle(rng, 10, 350)
    if p in LON_PARAMS:
        return g_angle(rng, -359.9, 359.9) if rng.random() < 0.4 else \
            g_angle(rng, 0, 359.9)
    if p in ("obliquity", "epsilon"):
        return g_angle(rng, 22.5, 24.5)
    if p in ("tofk5", "nutation", "ascending", "perihelion"):
        return rng.random() < 0.5
    if p in ("p_motion_ra", "p_motion_dec", "p_motion_lon", "p_motion_lat"):
        return rng.choice((0.0, rng.uniform(-0.002, 0.002),
                           g_angle(rng, -0.002, 0.002)))
    if p in ("alpha_list", "delta_list", "alpha1_list", "delta1_list",
             "alpha2_list", "delta2_list"):
        raise KeyError(p)          # handled by overrides in gen_args
    raise KeyError(p)


def edge(rng, lo, hi):
    """A value of [lo, hi]: one time in four an end of the range or a value
    within 2 % of it (where range guards and series switches sit)."""
    r = rng.random()
    if r < 0.75:
        return rng.uniform(lo, hi)
    w = 0.02 * (hi - lo)
    return rng.choice((lo, hi, rng.uniform(lo, lo + w),
                       rng.uniform(hi - w, hi)))


def gen_args(rng, qual, sig):
    """(args list) for a static/plain function, or raises KeyError."""
    from pymeeus.Angle import Angle
    from pymeeus.Epoch import Epoch
    base = qual.split(".")[-1]
    if base in ("mean_obliquity", "true_obliquity", "nutation_longitude",
                "nutation_obliquity", "check_input_date"):
        y, m, d = rng.randrange(-1900, 3900), rng.randrange(1, 13), \
            rng.randrange(1, 29)
        import datetime
        args = rng.choice(([Epoch(y, m, d)], [y, m, d], [(y, m, d)],
                           [[y, m, d]], [Epoch(y, m, d)],
                           [datetime.date(max(1, min(9999, y)), m, d)],
                           [datetime.datetime(max(1, min(9999, y)), m, d,
                                              rng.randrange(24),
                                              rng.randrange(60))]))
        # the documented keywords of the date forms, with every form
        r = rng.random()
        if r < 0.25:
            args = args + [KW(utc=True)]
        elif r < 0.4:
            args = args + [KW(leap_seconds=rng.choice((0.0, 35.0, 10)))]
        elif r < 0.5:
            args = args + [KW(utc=False)]
        return args
    if base in ("planetary_conjunction", "planet_star_conjunction",
                "planet_stars_in_line"):
        a0, d0 = rng.uniform(20, 300), rng.uniform(-50, 50)
        t0 = rng.uniform(-0.8, 0.8)
        # odd and even numbers of entries (the last one of an even table is
        # documented to be dropped), as lists or as tuples
        n = rng.choice((5, 5, 3, 4, 6, 7))
        if base == "planet_stars_in_line":
            n = rng.choice((5, 5, 6, 7))     # the two stars are placed for
            #                                  a table of at least five
        c = (n if n % 2 else n - 1) // 2
        box = rng.choice((list, list, tuple))
        ra1 = box(Angle(a0 + 0.8 * (i - c - t0)) for i in range(n))
        de1 = box(Angle(d0 + 0.2 * (i - c)) for i in range(n))
        ra2 = box(Angle(a0 + 0.1 * (i - c - t0)) for i in range(n))
        de2 = box(Angle(d0 - 1.0 + 0.05 * i) for i in range(n))
        if base == "planetary_conjunction":
            return [ra1, de1, ra2, de2]
        if base == "planet_star_conjunction":
            return [ra1, de1, Angle(a0), Angle(d0 - 1.0)]
        return [ra1, de1, Angle(a0 - 2.0 - t0), Angle(d0 - 3.0),
                Angle(a0 + 1.0 - t0 * 0.5), Angle(d0 + 4.0)]
    if base == "minimum_angular_separation":
        a0, d0 = rng.uniform(20, 300), rng.uniform(-50, 50)
        out = []
        for i in range(3):
            out += [Angle(a0 + 0.8 * (i - 1)), Angle(d0 + 0.2 * (i - 1))]
        for i in range(3):
            out += [Angle(a0 + 0.1 * (i - 1) + 0.05),
                    Angle(d0 - 0.5 + 0.05 * i)]
        return out
    if base in ("straight_line", "circle_diameter"):
        a0, d0 = rng.uniform(20, 300), rng.uniform(-50, 50)
        out = []
        for i in range(3):
            out += [Angle(a0 + rng.uniform(-2, 2)),
                    Angle(d0 + rng.uniform(-2, 2))]
        return out
    if qual.startswith("JupiterMoons."):
        if base == "apparent_rectangular_coordinates":
            fict = rng.random() < 0.3
            xyz = [0.0, 0.0, 1.0] if fict else \
                [rng.uniform(-26, 26), rng.uniform(-26, 26),
                 rng.uniform(-1, 1)]
            return [g_epoch(rng, 1700.0, 2300.0)] + xyz + [
                rng.uniform(99.0, 101.5), rng.uniform(0.0, 360.0),
                rng.uniform(1.29, 1.31), rng.uniform(-3.2, 3.2),
                rng.uniform(-0.03, 0.03),
                0.0 if fict else rng.uniform(-0.06, 0.06), fict]
        if base == "check_coordinates":
            return [rng.uniform(-26, 26), rng.uniform(-26, 26)]
        if base in ("check_occultation", "check_eclipse"):
            if rng.random() < 0.5:
                return [rng.uniform(-26, 26), rng.uniform(-26, 26),
                        rng.uniform(-26, 26)]
            return [0, 0, 0, g_epoch(rng, 1700.0, 2300.0),
                    rng.randrange(1, 5)]
        if base == "correct_rectangular_positions":
            R = rng.uniform(5.9, 26.4)       # |X| <= R: X is a component of R
            v = [rng.uniform(-1, 1) for _ in range(3)]
            nrm = math.sqrt(sum(c * c for c in v)) or 1.0
            xyz = [R * c / nrm for c in v]
            if rng.random() < 0.3:
                return [R, rng.randrange(1, 5), rng.uniform(4.0, 6.5),
                        tuple(xyz)]
            return [R, rng.randrange(1, 5), rng.uniform(4.0, 6.5)] + xyz
        if p_is_epoch_only(sig):
            return [g_epoch(rng, 1700.0, 2300.0)]
    if base in ("vsop_pos", "geometric_vsop_pos", "apparent_vsop_pos"):
        import pymeeus.Venus as V
        args = [g_epoch(rng), V.VSOP87_L, V.VSOP87_B, V.VSOP87_R]
        if base != "vsop_pos":
            args.append(rng.random() < 0.5)
        return args
    if base == "orbital_elements":
        import pymeeus.Venus as V
        return [g_epoch(rng), V.ORBITAL_ELEM, V.ORBITAL_ELEM_J2000]
    if base in ("phase_angle", "illuminated_fraction") \
            and "Coordinates" in qual:
        r = rng.uniform(0.4, 30.0)
        ang = rng.uniform(0.05, 3.0)
        return [r, math.sqrt(r * r + 1 - 2 * r * math.cos(ang)), 1.0]
    args = []
    for name, prm in sig.parameters.items():
        if name == "self":
            continue
        if prm.kind in (prm.VAR_POSITIONAL, prm.VAR_KEYWORD):
            raise KeyError("*" + name)
        if prm.default is not prm.empty and rng.random() < 0.35:
            break
        args.append(gen_param(rng, qual, name))
    return args


def p_is_epoch_only(sig):
    names = [n for n in sig.parameters if n != "self"]
    return bool(names) and names[0] == "epoch" and all(
        sig.parameters[n].default is not inspect.Parameter.empty
        for n in names[1:])


def make_instance(rng, cls_name):
    """A fresh receiver for instance methods."""
    from pymeeus.Angle import Angle
    from pymeeus.Epoch import Epoch
    if cls_name == "Angle":
        return Angle(rng.uniform(-359, 359))
    if cls_name == "Epoch":
        return Epoch(jd_of_year(rng.uniform(1901, 2099)))
    if cls_name == "Interpolation":
        from pymeeus.Interpolation import Interpolation
        xs = [float(i) for i in range(5)]
        u = rng.uniform(0.0, 1.0)
        # a sign change between the ends and an interior maximum, so that
        # root() and minmax() are inside their documented domain
        ys = [-2.0 - u, 1.0 + u, 3.0 + u, 1.5, 0.5]
        return Interpolation(xs, ys)
    if cls_name == "CurveFitting":
        from pymeeus.CurveFitting import CurveFitting
        xs = [float(i) + rng.uniform(-0.2, 0.2) for i in range(8)]
        return CurveFitting(xs, [2.0 * x + 1.0 + rng.uniform(-1, 1)
                                 for x in xs])
    if cls_name == "Ellipsoid":
        from pymeeus.Earth import Ellipsoid
        return Ellipsoid(6378137.0, 1 / 298.257223563, 7.292115e-5)
    if cls_name == "Earth":
        from pymeeus.Earth import Earth, IAU76, WGS84
        return Earth(rng.choice((IAU76, WGS84)))
    if cls_name == "Minor":
        from pymeeus.Minor import Minor
        from pymeeus.Angle import Angle as A
        return Minor(rng.uniform(0.3, 5.0), rng.uniform(0.0, 0.9),
                     A(rng.uniform(0, 60)), A(rng.uniform(0, 360)),
                     A(rng.uniform(0, 360)),
                     Epoch(jd_of_year(rng.uniform(1950, 2050))))
    if cls_name == "Sun":
        from pymeeus.Sun import Sun
        return Sun()
    raise KeyError(cls_name)


def inst_args(rng, qual, an, inst):
    """Arguments for instance methods that need fixtures."""
    from pymeeus.Angle import Angle
    from pymeeus.Epoch import Epoch
    cls = type(inst).__name__
    if an in ("set", "__init__") and cls in ("Angle", "Interpolation",
                                              "CurveFitting") \
            and rng.random() < 0.25:
        src = make_instance(rng, cls)
        if cls != "CurveFitting":
            src.set_tolerance(10.0 ** rng.randrange(-8, -3))
        return [src]
    if cls == "Angle" and an in ("set", "set_ra", "__init__"):
        return rng.choice(([rng.uniform(-1000, 1000)],
                           [rng.randrange(0, 360), rng.uniform(0, 59),
                            rng.uniform(0, 59)],
                           [(rng.randrange(-90, 90), rng.uniform(0, 59))],
                           [[rng.randrange(0, 24), 30, 15.5]]))
    if cls == "Epoch" and an in ("set", "__init__"):
        y, m, d = rng.randrange(-1900, 3900), rng.randrange(1, 13), \
            rng.randrange(1, 29)
        return rng.choice(([y, m, d], [(y, m, d + 0.5)], [[y, m, d, 12, 30]],
                           [2451545.0 + rng.uniform(-1e5, 1e5)],
                           [Epoch(y, m, d)]))
    if cls == "Epoch" and an in ("get_date", "get_full_date"):
        # plain, and with each documented option (local=True excepted: it
        # reads the wall clock); the options with their default values too
        return rng.choice(([], [], [KW(utc=True)], [KW(utc=False)],
                           [KW(local=False)],
                           [KW(leap_seconds=rng.choice((0.0, 35.0, 10)))],
                           [KW(utc=True, local=False)]))
    if cls in ("Interpolation", "CurveFitting") and an in ("set",
                                                           "__init__"):
        xs = [float(i) for i in range(4)]
        ys = [rng.uniform(-3, 3) for _ in xs]
        return rng.choice(([xs, ys], [tuple(xs), tuple(ys)],
                           [0.0, ys[0], 1.0, ys[1], 2.0, ys[2]], [ys]))
    if cls == "Interpolation" and an == "derivative":
        return [rng.uniform(0.0, 4.0)]
    if cls == "Interpolation" and an == "root":
        return rng.choice(([0.0, 1.0], [1.0, 0.0], [-3.0, 1.0]))
    if cls == "Interpolation" and an == "minmax":
        return rng.choice(([1.0, 3.0], [3.0, 1.0]))
    if cls == "CurveFitting" and an == "general_fitting":
        return [math.sin, math.cos] if rng.random() < 0.5 else \
            [lambda x: x * x, lambda x: x, lambda x: 1.0]
    if cls == "Earth" and an in ("set", "__init__"):
        from pymeeus.Earth import IAU76
        return [IAU76]
    if cls == "Ellipsoid" and an == "__init__":
        return [6378140.0, 1 / 298.257, 7.292114992e-5]
    if cls == "Minor" and an in ("set", "__init__"):
        return [rng.uniform(0.3, 5.0), rng.uniform(0.0, 0.9),
                Angle(rng.uniform(0, 60)),
                # node and argument of perihelion in either representation
                # (the library's own orbital-element functions return
                # negative arguments of perihelion)
                Angle(rng.uniform(-360, 360)), Angle(rng.uniform(-360, 360)),
                Epoch(jd_of_year(rng.uniform(1950, 2050)))]
    if cls == "Minor":
        return [Epoch(jd_of_year(rng.uniform(1950, 2050)))]
    raise KeyError(an)


# -------------------------------------------------------------------- judging
KNOWN_REFUSALS = (
    ("perihelion_aphelion", "Invalid interval"),
    ("passage_nodes", "Invalid interval"),
    ("_near_parabolic", "No convergence"),
)


def owned_elsewhere(qual, ex):
    s = str(ex)
    base = qual.split(".")[-1]
    for b, msg in KNOWN_REFUSALS:
        if b == base and msg in s and ("Jupiter" in qual or "Saturn" in qual):
            return True
    return False


def resolve(target):
    qual, m, cname, an, kind = target
    mod = importlib.import_module("pymeeus." + m)
    if cname is None:
        return getattr(mod, an), None
    return getattr(getattr(mod, cname), an), getattr(mod, cname)


_WATCH = {"items": None, "hit": None, "on": False, "n": 0}


def watch_install():
    """PY_START observer: while a monitored call runs, every entry into a
    library function (the callees of the call) compares the caller's Angle /
    Epoch objects with their values at the start of the call.  A value that
    is changed and put back before the call returns is invisible to the
    before/after snapshots; it is visible here whenever the library calls one
    of its own functions in between, and to any other thread or re-entrant
    caller that reads the object meanwhile."""
    import sys
    sm = getattr(sys, "monitoring", None)
    if sm is None or _WATCH["on"]:
        return
    import pymeeus
    libdir = os.path.dirname(os.path.abspath(pymeeus.__file__)) + os.sep
    WT = 5

    def on_start(code, offset):
        w = _WATCH["items"]
        if w is None:
            return None
        if not code.co_filename.startswith(libdir):
            return sm.DISABLE
        _WATCH["n"] += 1
        for obj, attr, val in w:
            now = getattr(obj, attr, val)
            if now != val and _WATCH["hit"] is None:
                _WATCH["hit"] = {"entered": code.co_qualname,
                                 "object": type(obj).__name__,
                                 "attribute": attr, "at_call": repr(val),
                                 "seen": repr(now)}
        return None

    try:
        sm.use_tool_id(WT, "vpm-watch")
    except ValueError:
        return
    sm.register_callback(WT, sm.events.PY_START, on_start)
    sm.set_events(WT, sm.events.PY_START)
    _WATCH["on"] = True


def watch_items(objs, depth=0):
    out = []
    for o in objs:
        t = type(o).__name__
        if t == "Angle":
            out.append((o, "_deg", o._deg))
            out.append((o, "_tol", o._tol))
        elif t == "Epoch":
            out.append((o, "_jde", o._jde))
        elif isinstance(o, (list, tuple)) and depth < 2:
            out += watch_items(o, depth + 1)
    return out


class Universe(object):
    """The universal monitor around one module's targets."""

    def __init__(self, mon, rng):
        self.mon = mon
        self.rng = rng
        self.calls = 0
        self.digest = module_digest()
        self.recent = []
        self.without_generator = set()
        self.called = set()
        self.pool = {}

    def quiesce(self, force=False):
        if not force and self.calls % 200:
            return
        d = module_digest()
        ch = digest_changes(self.digest, d)
        self.mon.check("module-tables-unchanged", not ch,
                       {"changed_modules": ch,
                        "recent_calls": self.recent[-12:]})
        self.digest = d
        self.recent = []

    def build(self, target):
        """Returns (callable taking a list of args, args, receiver or None,
        short class.name) or None."""
        qual, m, cname, an, kind = target
        rng = self.rng
        f, cls = resolve(target)
        short = (cname + "." + an) if cname else an
        try:
            if kind == "inst":
                inst = None
                if an == "__init__":
                    args = inst_args(rng, qual, an, make_instance(rng,
                                                                  cname)) \
                        if cname not in ("Sun",) else []
                    return (lambda a: ap(cls, a)), args, None, short
                inst = make_instance(rng, cname)
                sig = inspect.signature(f)
                try:
                    args = inst_args(rng, qual, an, inst)
                except KeyError:
                    args = gen_args(rng, qual, sig)
                return (lambda a, _i=inst: ap(getattr(_i, an), a)), args, \
                    inst, short
            sig = inspect.signature(f)
            args = gen_args(rng, qual, sig)
            # a longitude / right ascension in its other representation,
            # v - 360 in (-360, 0), now and then (whatever the generator of
            # this function produced)
            names = list(sig.parameters)
            for i_, a_ in enumerate(args):
                if i_ < len(names) and names[i_] in LON_PARAMS \
                        and type(a_).__name__ == "Angle" \
                        and 0.0 < a_._deg < 360.0 and rng.random() < 0.2:
                    from pymeeus.Angle import Angle as _A
                    args[i_] = _A(a_._deg - 360.0)
            # two epochs: now and then equal, or one object passed twice
            ei = [i for i, a in enumerate(args)
                  if type(a).__name__ == "Epoch"]
            if len(ei) >= 2 and rng.random() < 0.2:
                from pymeeus.Epoch import Epoch
                args[ei[1]] = args[ei[0]] if rng.random() < 0.4 else \
                    Epoch(args[ei[0]])
            return (lambda a: ap(f, a)), args, None, short
        except KeyError:
            self.without_generator.add(qual)
            return None

    def call(self, target, judge_total=True):
        """One monitored well-typed call.  Returns (ok, result snapshot)."""
        mon = self.mon
        qual = target[0]
        b = self.build(target)
        if b is None:
            return None
        fn, args, inst, short = b
        mon.evals += 1
        self.calls += 1
        self.called.add(qual)
        before = snap(args)
        rbefore = snap(inst) if inst is not None else None
        args2 = copy.deepcopy(args)
        inst2 = copy.deepcopy(inst)
        ident = (qual, before)
        if any(isinstance(a, (list, tuple)) for a in args):
            mon.cls("list-or-tuple-argument", ident)
        else:
            mon.cls("call", ident)
        self.recent.append(qual)
        watched = watch_items(list(args) + (
            [inst] if inst is not None and short not in MUTATORS else []))
        _WATCH["hit"] = None
        _WATCH["items"] = watched or None
        try:
            res = fn(args)
        except Exception as ex:
            _WATCH["items"] = None
            if owned_elsewhere(qual, ex):
                mon.refusal("owned-by-C13/C09:" + qual)
                return None
            if judge_total:
                mon.dev("total-on-domain",
                        {"target": qual, "args": args, "raised": repr(ex)},
                        key_total(qual, ex))
            return None
        _WATCH["items"] = None
        if watched and _WATCH["on"]:
            hit = _WATCH["hit"]
            mon.check("args-unchanged-during-call", hit is None,
                      lambda: dict(hit, target=qual, args=args))
        mon.ok("total-on-domain")
        after = snap(args)
        mon.check("args-unchanged", after == before,
                  lambda: {"target": qual, "before": repr(before)[:400],
                           "after": repr(after)[:400]}, key_args(qual))
        if inst is not None and short not in MUTATORS:
            mon.check("receiver-unchanged", snap(inst) == rbefore,
                      lambda: {"target": qual, "before": repr(rbefore)[:300],
                               "after": repr(snap(inst))[:300]})
        base = target[3]
        bad = finite(res)
        if base in RETURNS_NONE and res is None:
            bad = None
        if qual.endswith("times_rise_transit_set") and res == (None, None,
                                                                None):
            bad = None
        mon.check("result-finite-and-typed", bad is None,
                  lambda: {"target": qual, "args": args,
                           "result": repr(res)[:300], "problem": bad},
                  key_result(qual, bad))
        rs = snap(res)
        # equal arguments -> equal results (fresh deep copies)
        try:
            if inst2 is not None:
                res2 = ap(getattr(inst2, target[3]), args2)
            elif target[3] == "__init__":
                res2 = ap(resolve(target)[1], args2)
            else:
                res2 = ap(resolve(target)[0], args2)
            mon.check("equal-args-equal-results", snap(res2) == rs,
                      lambda: {"target": qual, "args": args,
                               "first": repr(res)[:300],
                               "second": repr(res2)[:300]})
        except Exception as ex:
            mon.dev("equal-args-equal-results",
                    {"target": qual, "args": args,
                     "second_call_raised": repr(ex)})
        self.scribble(target, res, rs, args, inst)
        self.reuse(target, args, inst)
        self.intform(target, args, inst)
        self.angleform(target, args, inst)
        self.ambient(target, args2, inst2, rs)
        self.defaults(target, args2, inst2, rs)
        self.quiesce()
        return rs

    def defaults(self, target, args2, inst2, rs):
        """A default spelled out is the default: the call with every omitted
        optional parameter passed by keyword with its documented default
        value returns what the plain call returned."""
        if self.rng.random() > 0.3 or target[3] == "__init__":
            return
        mon = self.mon
        f = getattr(inst2, target[3]) if inst2 is not None \
            else resolve(target)[0]
        try:
            ps = list(inspect.signature(f).parameters.values())
        except (TypeError, ValueError):
            return
        a = copy.deepcopy(args2)
        kw = KW(a.pop()) if a and isinstance(a[-1], KW) else KW()
        extra = {}
        for k, prm in enumerate(ps):
            if prm.kind is not prm.POSITIONAL_OR_KEYWORD \
                    and prm.kind is not prm.KEYWORD_ONLY:
                continue
            if prm.default is prm.empty or k < len(a) or prm.name in kw:
                continue
            extra[prm.name] = copy.deepcopy(prm.default)
        if not extra:
            return
        kw.update(extra)
        i = copy.deepcopy(inst2)
        mon.evals += 1
        self.calls += 1
        try:
            got = snap(ap(getattr(i, target[3]) if i is not None
                          else resolve(target)[0], a + [kw]))
        except Exception as ex:
            got = ("raised", repr(ex))
        mon.cls("defaults-spelled-out", (target[0], tuple(sorted(extra))))
        mon.check("explicit-defaults==omitted", got == rs,
                  lambda: {"target": target[0], "args": a,
                           "spelled_out": repr(extra)[:200],
                           "omitted": repr(rs)[:300],
                           "explicit": repr(got)[:300]})

    def ambient(self, target, args2, inst2, rs):
        """The interpreter-wide numeric context is not an argument: with the
        thread's decimal context set to 3 digits, rounding down (as a host
        application may have done for its own purposes), the call returns
        what it returned under the default context."""
        if self.rng.random() > 0.15 or target[3] == "__init__":
            return
        import decimal
        mon = self.mon
        a = copy.deepcopy(args2)
        i = copy.deepcopy(inst2)
        mon.evals += 1
        self.calls += 1
        try:
            with decimal.localcontext() as ctx:
                ctx.prec = 3
                ctx.rounding = decimal.ROUND_DOWN
                r = ap(getattr(i, target[3]) if i is not None
                       else resolve(target)[0], a)
            got = snap(r)
        except Exception as ex:
            got = ("raised", repr(ex))
        mon.cls("call-under-3-digit-decimal-context", (target[0], snap(a)))
        mon.check("independent-of-decimal-context", got == rs,
                  lambda: {"target": target[0], "args": a,
                           "default_context": repr(rs)[:300],
                           "prec=3": repr(got)[:300]})

    _INTDOC = {}

    @staticmethod
    def _numeric(sn):
        """A snapshot with whole numbers read as floats: 0 and 0.0 are the
        same value."""
        if isinstance(sn, tuple):
            if len(sn) == 2 and sn[0] == "int" and type(sn[1]) is int \
                    and abs(sn[1]) < 2 ** 53:
                return ("float", float(sn[1]).hex())
            return tuple(Universe._numeric(x) for x in sn)
        return sn

    def int_params(self, target):
        """Names of the parameters whose documented type is 'int, float'."""
        qual = target[0]
        if qual not in self._INTDOC:
            import re
            f = resolve(target)[0] if target[3] != "__init__" \
                else resolve(target)[1]
            doc = inspect.getdoc(f) or ""
            self._INTDOC[qual] = set(
                m.group(1) for m in re.finditer(
                    r":type\s+(\w+):\s*int,\s*float\b", doc))
        return self._INTDOC[qual]

    _UNIONDOC = {}

    def union_params(self, target):
        """Names of the parameters documented as a number or an Angle."""
        qual = target[0]
        if qual not in self._UNIONDOC:
            import re
            f = resolve(target)[0]
            doc = inspect.getdoc(f) or ""
            self._UNIONDOC[qual] = set(
                m.group(1) for m in re.finditer(
                    r":type\s+(\w+):[^\n]*float[^\n]*Angle", doc)
            ) - {"args", "deg", "x", "xl", "xh"}
        return self._UNIONDOC[qual]

    def angleform(self, target, args, inst):
        """A parameter documented as 'int, float, Angle' means the same
        number of degrees in either form: one such argument (one only, the
        others stay as they are) switched between number and Angle leaves
        the result unchanged."""
        mon = self.mon
        qual = target[0]
        if target[3] == "__init__":
            return
        names = self.union_params(target)
        if not names:
            return
        from pymeeus.Angle import Angle
        f = getattr(inst, target[3]) if inst is not None \
            else resolve(target)[0]
        try:
            params = [p for p in inspect.signature(f).parameters]
        except (TypeError, ValueError):
            return
        pos = [i for i, a in enumerate(args)
               if i < len(params) and params[i] in names
               and (isinstance(a, Angle) or (type(a) in (int, float)
                                             and abs(a) < 360.0))]
        if not pos:
            return
        k = self.rng.choice(pos)
        a1 = copy.deepcopy(args)
        a2 = copy.deepcopy(args)
        a2[k] = float(args[k]._deg) if isinstance(args[k], Angle) \
            else Angle(args[k])
        i1 = copy.deepcopy(inst)
        i2 = copy.deepcopy(inst)
        mon.evals += 2
        self.calls += 2
        try:
            want = snap(ap(getattr(i1, target[3]) if inst is not None
                           else f, a1))
        except Exception:
            return
        try:
            got = snap(ap(getattr(i2, target[3]) if inst is not None
                          else f, a2))
        except Exception as ex:
            got = ("raised", repr(ex))
        mon.cls("one-argument-switched-between-number-and-Angle",
                (qual, k, snap(a2)))
        mon.check("angle-form==number-form",
                  self._close(self._numeric(got), self._numeric(want)),
                  lambda: {"target": qual, "args": a2,
                           "switched": params[k],
                           "as_given": repr(want)[:300],
                           "switched_result": repr(got)[:300]})

    @staticmethod
    def _close(a, b, rel=1e-12):
        """Snapshots equal, floats to a relative 1e-12 (the degree-to-radian
        conversion of a number and of an Angle may round differently)."""
        if isinstance(a, tuple) and isinstance(b, tuple):
            if len(a) == 2 and len(b) == 2 and a[0] == "float" \
                    and b[0] == "float" and isinstance(a[1], str) \
                    and isinstance(b[1], str):
                try:
                    x, y = float.fromhex(a[1]), float.fromhex(b[1])
                except ValueError:
                    return a == b
                return x == y or abs(x - y) <= rel * max(abs(x), abs(y))
            return len(a) == len(b) and all(
                Universe._close(p, q, rel) for p, q in zip(a, b))
        return a == b

    def intform(self, target, args, inst):
        """A parameter documented as 'int, float' takes an int: the call with
        the whole number n given as an int returns what the call with
        float(n) returns (judged only where the float call succeeds)."""
        mon = self.mon
        qual = target[0]
        if target[3] == "__init__":
            return
        names = self.int_params(target)
        if not names:
            return
        f = getattr(inst, target[3]) if inst is not None \
            else resolve(target)[0]
        try:
            params = [p for p in inspect.signature(f).parameters]
        except (TypeError, ValueError):
            return
        pos = [i for i, a in enumerate(args)
               if i < len(params) and params[i] in names
               and type(a) is float and abs(a) < 1e15]
        if not pos:
            return
        a_int = copy.deepcopy(args)
        a_flt = copy.deepcopy(args)
        for i in pos:
            a_int[i] = int(args[i])
            a_flt[i] = float(int(args[i]))
        i2 = copy.deepcopy(inst)
        i3 = copy.deepcopy(inst)
        mon.evals += 2
        self.calls += 2
        try:
            want = snap(ap(getattr(i2, target[3]) if inst is not None
                           else f, a_flt))
        except Exception:
            return
        try:
            got = snap(ap(getattr(i3, target[3]) if inst is not None
                          else f, a_int))
        except Exception as ex:
            got = ("raised", repr(ex))
        mon.cls("int-for-a-documented-int-or-float", (qual, snap(a_int)))
        mon.check("int-form==float-form",
                  self._numeric(got) == self._numeric(want),
                  lambda: {"target": qual, "int_args": a_int,
                           "parameters": [params[i] for i in pos],
                           "with_floats": repr(want)[:300],
                           "with_ints": repr(got)[:300]})

    def scribble(self, target, res, rs, args, inst):
        """Results are values: after the caller has modified the returned
        Angle / Epoch / list objects in place, the receiver is as it was and
        the same call on equal arguments still returns what it returned."""
        mon = self.mon
        qual = target[0]
        if target[3] == "__init__" or \
                (inst is not None and qual.split(".", 1)[1] in MUTATORS):
            return
        argids = set(id(a) for a in args)
        if inst is not None:
            argids.add(id(inst))
        n = [0]
        aliased = []

        def scrib(x, depth=0):
            if depth > 4:
                return
            if id(x) in argids:
                if type(x).__name__ in ("Angle", "Epoch", "list", "dict",
                                        "Interpolation", "CurveFitting",
                                        "Earth", "Ellipsoid", "Minor"):
                    aliased.append(type(x).__name__)
                return
            t = type(x).__name__
            if t == "Angle":
                x.set(123.456)
                n[0] += 1
            elif t == "Epoch":
                x.set(2440000.5)
                n[0] += 1
            elif isinstance(x, list):
                for v in x:
                    scrib(v, depth + 1)
                x.append(None)
                n[0] += 1
            elif isinstance(x, tuple):
                for v in x:
                    scrib(v, depth + 1)
            elif isinstance(x, dict):
                for v in x.values():
                    scrib(v, depth + 1)
        rbefore = snap(inst) if inst is not None else None
        abefore = snap(args)
        args3 = copy.deepcopy(args)
        inst3 = copy.deepcopy(inst)
        try:
            scrib(res)
        except Exception as ex:
            mon.error("scribble " + qual, ex)
            return
        # a result that IS one of the caller's argument objects: modifying
        # the result then modifies the argument.  Epoch.check_input_date is
        # the documented exception (it hands an Epoch argument back as it is)
        if qual not in RETURNS_ARGUMENT:
            mon.check("result-is-not-an-argument-object", not aliased,
                      lambda: {"target": qual, "args": args,
                               "aliased_argument_types": aliased})
        if not n[0]:
            return
        mon.evals += 1
        self.calls += 1
        mon.cls("result-modified-by-caller", (qual, rs))
        ok = snap(args) == abefore and (inst is None
                                        or snap(inst) == rbefore)
        try:
            if inst3 is not None:
                res3 = ap(getattr(inst3, target[3]), args3)
            else:
                res3 = ap(resolve(target)[0], args3)
            same = snap(res3) == rs
        except Exception as ex:
            same, res3 = False, repr(ex)
        mon.check("results-own-their-state", ok and same,
                  lambda: {"target": qual, "args": args3,
                           "arguments_or_receiver_changed": not ok,
                           "first_result": repr(rs)[:300],
                           "after_result_was_modified": repr(res3)[:300]})

    def reuse(self, target, args, inst):
        """Argument objects with a history: the Angle / Epoch objects of the
        previous call of this target are re-set in place to the new values
        and passed again; the result must equal the one obtained with fresh
        objects holding the same values."""
        mon = self.mon
        qual = target[0]
        if inst is not None or target[3] == "__init__":
            return
        prev = self.pool.get(qual)
        self.pool[qual] = args
        if prev is None or len(prev) != len(args):
            return
        used = []
        n_re = 0
        for old, new in zip(prev, args):
            t = type(new).__name__
            if type(old) is type(new) and t == "Angle":
                old.set(new._deg)
                used.append(old)
                n_re += 1
            elif type(old) is type(new) and t == "Epoch":
                old.set(new._jde)
                used.append(old)
                n_re += 1
            else:
                used.append(new)
        if not n_re:
            return
        fresh = copy.deepcopy(used)
        mon.evals += 2
        self.calls += 2
        f = resolve(target)[0]
        try:
            r1 = ap(f, used)
        except Exception as ex1:
            r1 = ("raised", type(ex1).__name__)
        try:
            r2 = ap(f, fresh)
        except Exception as ex2:
            r2 = ("raised", type(ex2).__name__)
        mon.cls("argument-objects-with-history", (qual, snap(fresh)))
        mon.check("reused-argument-objects", snap(r1) == snap(r2),
                  lambda: {"target": qual, "args": fresh,
                           "with_reused_objects": repr(r1)[:300],
                           "with_fresh_objects": repr(r2)[:300]})

    def history_pair(self, t1, t2):
        """r1 = f(a); g(b); r2 = f(copy of a): r1 == r2."""
        mon = self.mon
        b1 = self.build(t1)
        b2 = self.build(t2)
        if b1 is None or b2 is None:
            return
        if t1[3] in RETURNS_NONE or t1[0].split(".", 1)[1] in MUTATORS:
            return
        fn1, a1, i1, s1 = b1
        fn2, a2, i2, s2 = b2
        a1c = copy.deepcopy(a1)
        i1c = copy.deepcopy(i1)
        mon.evals += 3
        self.calls += 3
        try:
            r1 = fn1(a1)
        except Exception:
            return
        try:
            fn2(a2)
        except Exception:
            pass
        try:
            if i1c is not None:
                r2 = ap(getattr(i1c, t1[3]), a1c)
            else:
                r2 = ap(resolve(t1)[0], a1c) if t1[3] != "__init__" \
                    else ap(resolve(t1)[1], a1c)
        except Exception as ex:
            mon.dev("history-independent",
                    {"f": t1[0], "g": t2[0], "second_call_raised": repr(ex)})
            return
        mon.cls("history-pair", (t1[0], t2[0], snap(a1)))
        mon.check("history-independent", snap(r1) == snap(r2),
                  lambda: {"f": t1[0], "g": t2[0], "args": a1,
                           "first": repr(r1)[:300], "second": repr(r2)[:300]})
        self.quiesce()

    def illtyped(self, target):
        """Ill-typed probes on every positional parameter."""
        mon = self.mon
        qual = target[0]
        b = self.build(target)
        if b is None:
            return
        fn, args, inst, short = b
        args = [a for a in args if not isinstance(a, KW)]
        probes = [None, "abc", 1 + 2j, [1.0]]
        variants = []
        for i in range(len(args)):
            for pv in probes:
                # a list is a legitimate form for *args-style constructors
                a = list(args)
                a[i] = pv
                variants.append((i, repr(pv), a))
        variants.append((-1, "extra-positional", list(args) + [None, None,
                                                                None, None,
                                                                None, None,
                                                                None, None]))
        if args:
            variants.append((-2, "missing-positional", list(args)[:-1]))
        for idx, what, a in variants:
            if isinstance(args[idx] if 0 <= idx < len(args) else None,
                          (list, tuple)) and what == "[1.0]":
                continue
            if 0 <= idx < len(args) and isinstance(args[idx], bool):
                continue     # flags: any truthiness is accepted by design
            if callable(args[idx]) if 0 <= idx < len(args) else False:
                continue
            mon.evals += 1
            self.calls += 1
            mon.cls("ill-typed-probe", (qual, idx, what))
            recv = copy.deepcopy(inst)
            abefore = snap(a)
            try:
                if recv is not None:
                    r = getattr(recv, target[3])(*a)
                elif target[3] == "__init__":
                    r = resolve(target)[1](*a)
                else:
                    r = resolve(target)[0](*a)
            except (TypeError, ValueError, ZeroDivisionError):
                mon.ok("illtyped->TypeError|ValueError")
                # a refused call has not touched the other arguments either
                mon.check("args-unchanged", snap(a) == abefore,
                          lambda: {"target": qual, "refused_probe": what,
                                   "position": idx,
                                   "before": repr(abefore)[:300],
                                   "after": repr(snap(a))[:300]},
                          key_args(qual))
                # ... nor the object it was called on (the documented
                # mutators excepted)
                if recv is not None and short not in MUTATORS:
                    mon.check("receiver-unchanged", snap(recv) == snap(inst),
                              lambda: {"target": qual, "refused_probe": what,
                                       "position": idx,
                                       "before": repr(snap(inst))[:300],
                                       "after": repr(snap(recv))[:300]})
                continue
            except Exception as ex:
                mon.dev("illtyped->TypeError|ValueError",
                        {"target": qual, "position": idx, "probe": what,
                         "raised": repr(ex)}, key_illtyped(qual, idx, ex))
                continue
            bad = finite(r)
            if target[3] in RETURNS_NONE and r is None:
                bad = None
            if idx == -2 and bad is None:
                mon.ok("illtyped->TypeError|ValueError")
                continue
            mon.check("illtyped->TypeError|ValueError", bad is None,
                      {"target": qual, "position": idx, "probe": what,
                       "returned": repr(r)[:200], "problem": bad},
                      key_illtyped(qual, idx, None))
        self.quiesce()


def key_total(qual, ex):
    return None


def key_args(qual):
    return None


def key_result(qual, bad):
    return None


def key_illtyped(qual, idx, ex):
    return None


# ----------------------------------------------------------------------- cases
def case_module(mon, module, ncalls, npairs, seedval):
    rng = random.Random(seedval)
    targets = [t for t in discover() if t[1] == module]
    everything = discover()
    uni = Universe(mon, rng)
    watch_install()
    for t in targets:
        for _ in range(ncalls):
            mon.begin("call", [t[0], seedval])
            uni.call(t)
        mon.begin("illtyped", [t[0], seedval])
        uni.illtyped(t)
    for _ in range(npairs):
        t1 = rng.choice(targets)
        t2 = rng.choice(everything)
        mon.begin("history", [t1[0], t2[0], seedval])
        uni.history_pair(t1, t2)
    uni.quiesce(force=True)
    never = [t[0] for t in targets if t[0] not in uni.called
             and t[0] not in uni.without_generator]
    mon.check("every-generated-target-called", not never, {"never": never})
    for q in sorted(uni.without_generator):
        mon.refusal("target-without-generator:" + q)
    mon.hit("targets-called", len(uni.called))
    mon.hit("targets-without-generator", len(uni.without_generator))


def case_threads(mon, njobs, seedval):
    """'In any order relative to other calls': the same calls made from four
    threads at once (switch interval 1 us, so that calls interleave at the
    bytecode level) return what they returned one after the other.  Every
    thread works on its own deep copies of the arguments and receivers, so
    nothing is shared between the threads but the library itself.  Only calls
    that were observed to overlap a call of another thread count as checked;
    the comparison is made after the threads have been joined.  On top of the
    short switch interval, a sys.monitoring LINE callback restricted to the
    library's own files gives up the GIL at one statement in eight inside the
    worker threads (yield injection), so that another thread runs between two
    statements of one library function, not only between calls."""
    import itertools
    import sys
    import threading
    rng = random.Random(seedval)
    uni = Universe(mon, rng)
    everything = [t for t in discover()
                  if t[3] not in RETURNS_NONE
                  and t[0].split(".", 1)[1] not in MUTATORS]
    NT = 4
    jobs = []
    while len(jobs) < njobs:
        # one target, NT different argument sets: thread k gets set k, so
        # that the threads are inside the same function with different data
        t = rng.choice(everything)
        sets = []
        for _ in range(NT):
            b = uni.build(t)
            if b is None:
                break
            fn, args, inst, short = b
            mine = (copy.deepcopy(args), copy.deepcopy(inst))
            try:
                ref = snap(fn(args))
            except Exception:
                break
            sets.append((ref, mine))
        if len(sets) == NT:
            jobs.append((t, sets))

    def one(t, a, i):
        if i is not None:
            return ap(getattr(i, t[3]), a)
        return ap(resolve(t)[0], a)

    tick = itertools.count()
    out = [[None] * len(jobs) for _ in range(NT)]
    # first half: all threads take the jobs in the same order and meet at a
    # barrier before each (same function at the same time); second half:
    # each thread in its own order (different functions at the same time)
    half = len(jobs) // 2
    orders = []
    for k in range(NT):
        o = list(range(half, len(jobs)))
        random.Random(seedval + k).shuffle(o)
        orders.append(list(range(half)) + o)
    go = threading.Event()
    meet = threading.Barrier(NT)

    def work(k):
        go.wait()
        for n, j in enumerate(orders[k]):
            if n < half:
                meet.wait()
            t, sets = jobs[j]
            # the first quarter of the jobs: the four threads *share* one
            # set of argument objects and one receiver (several readers of
            # one Angle / Epoch; none of these targets is a mutator)
            a, i = sets[0 if j < half // 2 else k][1]
            s0 = next(tick)
            try:
                r = ("value", snap(one(t, a, i)))
            except Exception as ex:
                r = ("raised", repr(ex))
            out[k][j] = (s0, next(tick), r)

    import time
    import pymeeus
    libdir = os.path.dirname(os.path.abspath(pymeeus.__file__)) + os.sep
    workers = {}
    yields = [0] * NT
    sm = getattr(sys, "monitoring", None)
    YT = 4

    def on_line(code, line):
        if not code.co_filename.startswith(libdir):
            return sm.DISABLE
        w = workers.get(threading.get_ident())
        if w is not None and w[1].random() < 0.125:
            yields[w[0]] += 1
            time.sleep(0)

    def work_(k):
        workers[threading.get_ident()] = (k, random.Random(seedval * 7 + k))
        work(k)

    old = sys.getswitchinterval()
    sys.setswitchinterval(1e-6)
    if sm is not None:
        try:
            sm.use_tool_id(YT, "vpm-yield")
        except ValueError:
            pass
        sm.register_callback(YT, sm.events.LINE, on_line)
        sm.set_events(YT, sm.events.LINE)
    try:
        ths = [threading.Thread(target=work_, args=(k,)) for k in range(NT)]
        for th in ths:
            th.start()
        go.set()
        for th in ths:
            th.join()
    finally:
        sys.setswitchinterval(old)
        if sm is not None:
            sm.set_events(YT, 0)
            sm.register_callback(YT, sm.events.LINE, None)
            sm.free_tool_id(YT)
    mon.hit("yields-injected-inside-library-functions", sum(yields))
    # which calls overlapped a call of another thread
    spans = sorted((out[k][j][0], out[k][j][1], k, j)
                   for k in range(NT) for j in range(len(jobs)))
    overlapped = set()
    open_ = []
    for s0, s1, k, j in spans:
        open_ = [x for x in open_ if x[1] > s0]
        for x in open_:
            if x[2] != k:
                overlapped.add((k, j))
                overlapped.add((x[2], x[3]))
        open_.append((s0, s1, k, j))
    mon.hit("threaded-calls", NT * len(jobs))
    mon.hit("threaded-calls-on-shared-objects", NT * (half // 2))
    mon.hit("threaded-calls-overlapping-another-thread", len(overlapped))
    for k in range(NT):
        for j in range(len(jobs)):
            t, sets = jobs[j]
            ref = sets[0 if j < half // 2 else k][0]
            mon.evals += 1
            if (k, j) not in overlapped:
                continue
            mon.cls("interleaved-call", (t[0], ref))
            kind, val = out[k][j][2]
            mon.check("interleaved-calls==sequential",
                      kind == "value" and val == ref,
                      lambda: {"target": t[0], "thread": k,
                               "sequential": repr(ref)[:300],
                               "interleaved": repr(val)[:300]})
    uni.quiesce(force=True)


# ------------------------------------------------- order between processes
def _nudge(rng, args):
    """The argument list with one number, Epoch or Angle moved a hair (1e-9 to
    4e-4 of its size) or one integer moved to a value that shares low-order
    structure with it (+-100, +-400, sign)."""
    from pymeeus.Epoch import Epoch
    from pymeeus.Angle import Angle
    idx = [i for i, a in enumerate(args)
           if (isinstance(a, (int, float)) and not isinstance(a, bool))
           or type(a).__name__ in ("Epoch", "Angle")]
    if not idx:
        return None
    out = copy.deepcopy(args)
    i = rng.choice(idx)
    a = out[i]
    d = rng.choice((1e-9, 1e-7, 3e-6, 4e-5, 4e-4)) * rng.choice((1, -1))
    if isinstance(a, float):
        out[i] = a + d * max(1.0, abs(a))
    elif isinstance(a, int):
        out[i] = rng.choice((a + 400, a - 400, -a, a + 100, a - 100))
    elif type(a).__name__ == "Epoch":
        out[i] = Epoch(a.jde() + d * rng.choice((1, 100, 1000)))
    else:
        out[i] = Angle(a._deg + d * rng.choice((1, 10)))
    return out


def _orders_items(seedval, n):
    """A list of (qualified name, callable, args): n generated calls, each
    followed by two calls of the same function (and receiver) on arguments
    next to its own.  Deterministic in (seedval, n)."""
    rng = random.Random(seedval)

    class _Null(object):
        def __getattr__(self, name):
            return lambda *a, **k: None
    uni = Universe(_Null(), rng)
    uni.digest = None
    targets = [t for t in discover()
               if t[3] not in RETURNS_NONE
               and ((t[2] + "." + t[3]) if t[2] else t[3]) not in MUTATORS]
    items = []
    for _ in range(n):
        t = rng.choice(targets)
        try:
            b = uni.build(t)
        except Exception:
            b = None
        if b is None:
            continue
        fn, args, inst, short = b
        items.append((t[0], fn, args))
        for _k in range(2):
            try:
                a2 = _nudge(rng, args)
            except Exception:
                a2 = None
            if a2 is not None:
                items.append((t[0], fn, a2))
    return items


def _orders_eval(items, order):
    import hashlib
    out = {}
    for i in order:
        qual, fn, args = items[i]
        try:
            before = repr(snap(args))
        except Exception as ex:
            before = "unsnappable " + type(ex).__name__
        try:
            r = repr(snap(fn(copy.deepcopy(args))))
        except Exception as ex:
            r = "raised " + type(ex).__name__
        out[i] = [hashlib.sha1(before.encode()).hexdigest()[:16],
                  hashlib.sha1(r.encode()).hexdigest()[:16], r[:200]]
    return out


def _orders_child():
    """Entry point of the second process: the same list, last call first."""
    import sys
    from vpm import env
    env.ensure_deps()
    env.import_repo()
    seedval, n = int(sys.argv[1]), int(sys.argv[2])
    items = _orders_items(seedval, n)
    res = _orders_eval(items, range(len(items) - 1, -1, -1))
    json.dump({str(k): v for k, v in res.items()}, sys.stdout)


def case_orders(mon, seedval, n):
    """Equal arguments, equal results, whatever was called before - across
    processes: this process makes a list of calls first to last (each call
    followed by calls of the same function on neighbouring arguments); a
    fresh process makes the same calls last to first.  An answer that depends
    on which neighbour was asked first (a result kept under a rounded or
    partial key) differs between the two."""
    import subprocess
    import sys
    from vpm import env
    items = _orders_items(seedval, n)
    here = _orders_eval(items, range(len(items)))
    p = subprocess.run(
        [sys.executable, "-c",
         "from vpm.props import c20; c20._orders_child()", str(seedval),
         str(n)], cwd=env.VERIF, capture_output=True, text=True,
        timeout=3000, env=dict(os.environ, PYTHONPATH=env.VERIF,
                               PYTHONHASHSEED="0"))
    if p.returncode != 0:
        raise RuntimeError("orders child failed: " + p.stderr[-800:])
    there = json.loads(p.stdout)
    compared = 0
    for i, (qual, fn, args) in enumerate(items):
        a, b = here[i], there.get(str(i))
        if b is None or a[0] != b[0]:
            mon.refusal("orders:arguments-not-reproduced:" + qual)
            continue
        compared += 1
        mon.evals += 2
        mon.cls("same-call-in-two-processes", ("ord", seedval, i))
        mon.check("equal-args-equal-results-in-any-order", a[1] == b[1],
                  lambda: {"f": qual, "args": args, "position_in_list": i,
                           "first_to_last": a[2], "last_to_first": b[2]},
                  qual)
    mon.hit("orders-compared", compared)


def case_inventory(mon):
    """Every public function and method the pinned tree has is still there
    (possibly decorated) and of the same kind; totality is quantified over
    all of them, so one that disappears from the workload must be noticed."""
    have = dict((t[0], t[4]) for t in discover())
    p = os.path.join(os.path.dirname(os.path.dirname(
        os.path.abspath(__file__))), "api_inventory.txt")
    n = 0
    with open(p) as f:
        for line in f:
            if line.startswith("#") or not line.strip():
                continue
            name, kind = line.split()
            n += 1
            mon.evals += 1
            mon.check("public-api-present", have.get(name) == kind,
                      {"function": name, "kind_at_pinned_commit": kind,
                       "now": have.get(name, "absent")})
    mon.cls("api-inventory", ("inventory", n), n)


def case_kworder(mon, seedval):
    """Equal keyword arguments written in another order are equal arguments:
    every call that takes utc= / leap_seconds= / local= returns the same for
    both orders."""
    from pymeeus.Epoch import Epoch
    from pymeeus import Coordinates as C
    rng = random.Random(seedval)
    for _ in range(30):
        mon.evals += 1
        y, m, d = rng.randrange(1972, 2030), rng.randrange(1, 13), \
            rng.randrange(1, 29) + rng.choice((0.0, 0.5, 0.25))
        k = rng.choice((0.0, 10, 27.0, 35.0, 37))
        e = Epoch(y, m, d)
        kws = [("utc", True), ("leap_seconds", k)]
        calls = {
            "Epoch(y, m, d, **kw)": lambda kw: Epoch(y, m, d, **kw).jde(),
            "Epoch.set(jde, **kw)": lambda kw: (lambda o: (o.set(e.jde(),
                                                                 **kw),
                                                          o.jde())[1])(
                Epoch(2451545.0)),
            "Epoch.get_date(**kw)": lambda kw: e.get_date(**kw),
            "Epoch.get_full_date(**kw)": lambda kw: e.get_full_date(**kw),
            "check_input_date(e, **kw)": lambda kw: Epoch.check_input_date(
                Epoch(e), **kw).jde(),
            "mean_obliquity(y, m, d, **kw)": lambda kw: C.mean_obliquity(
                y, m, int(d), **kw)(),
            "nutation_longitude(e, **kw)": lambda kw: C.nutation_longitude(
                Epoch(e), **kw)(),
        }
        for name, f in calls.items():
            out = []
            for order in (kws, kws[::-1]):
                try:
                    out.append(f(dict(order)))
                except Exception as ex:
                    out.append(("raised", type(ex).__name__))
            mon.check("equal-args-equal-results", out[0] == out[1],
                      lambda: {"target": name, "date": [y, m, d],
                               "keywords": kws, "first_order": repr(out[0]),
                               "reversed_order": repr(out[1])})
    mon.cls("keyword-order", ("kworder", seedval))


def case_copies(mon, seedval):
    """Copies made by copy constructors do not share state with the
    source."""
    from pymeeus.Angle import Angle
    from pymeeus.Epoch import Epoch
    from pymeeus.Interpolation import Interpolation
    from pymeeus.CurveFitting import CurveFitting
    rng = random.Random(seedval)
    for _ in range(40):
        mon.evals += 1
        a = Angle(rng.uniform(-300, 300))
        a.set_tolerance(1e-7)
        c = Angle(a)
        s0 = snap(c)
        a.set(12.5)
        a.set_tolerance(1e-3)
        a.to_positive()
        a.set_radians(1.0)
        a.set_ra(3.0)
        ok1 = snap(c) == s0
        sa = snap(a)
        c.set(-77.0)
        c.set_tolerance(5.0)
        ok2 = snap(a) == sa
        mon.cls("copy-constructor", ("Angle", s0))
        mon.check("copies-independent", ok1 and ok2,
                  {"type": "Angle", "copy_before": repr(s0),
                   "copy_after": repr(snap(c))})
        e = Epoch(jd_of_year(rng.uniform(-1000, 3000)))
        c = Epoch(e)
        s0 = snap(c)
        e.set(2000, 1, 1)
        e += 5
        ok1 = snap(c) == s0
        se = snap(e)
        c.set(1990, 5, 5)
        mon.check("copies-independent", ok1 and snap(e) == se,
                  {"type": "Epoch", "copy_before": repr(s0)})
        xs = [0.0, 1.0, 2.0, 3.0]
        ys = [rng.uniform(-3, 3) for _ in xs]
        i = Interpolation(list(xs), list(ys))
        c = Interpolation(i)
        def look(o, q):
            # a copy that lost its data raises: that is an observation too
            try:
                return (o(q), o.derivative(q), len(o), o.get_tolerance(),
                        str(o))
            except Exception as ex:
                return ("raised", repr(ex))
        v0 = look(c, 1.5)
        i.set([5.0, 6.0, 7.0], [1.0, 4.0, 9.0])
        i.set_tolerance(1e-3)
        v1 = look(c, 1.5)
        ok1 = v1 == v0
        w0 = look(i, 5.5)
        # (set() followed by set_tolerance() are two successful calls: the
        # object answers afterwards)
        mon.check("total-on-domain", w0[0] != "raised",
                  {"target": "Interpolation.Interpolation.__call__",
                   "after": "set([5, 6, 7], [1, 4, 9]); set_tolerance(1e-3)",
                   "at": 5.5, "answer": repr(w0)})
        c.set([0.0, 1.0], [0.0, 1.0])
        c.set_tolerance(1e-2)
        w1 = look(i, 5.5)
        ok2 = w1 == w0
        mon.check("copies-independent", ok1 and ok2,
                  {"type": "Interpolation", "x": xs, "y": ys,
                   "copy_before_and_after_source.set": [repr(v0), repr(v1)],
                   "source_before_and_after_copy.set": [repr(w0), repr(w1)]})
        # the same through set(<Interpolation>) on an existing object
        c2 = Interpolation([0.0, 1.0, 2.0], [1.0, 0.0, 1.0])
        c2.set(i)
        w0 = look(c2, 5.5)
        i.set([0.0, 2.0, 4.0], [3.0, -1.0, 2.0])
        w1 = look(c2, 5.5)
        mon.check("copies-independent", w1 == w0,
                  {"type": "Interpolation.set(Interpolation)",
                   "copy_before_and_after_source.set": [repr(w0), repr(w1)]})
        # the source lists handed to the constructor stay the caller's own
        lx, ly = list(xs), list(ys)
        i2 = Interpolation(lx, ly)
        lx[0] = 99.0
        ly[1] = -99.0
        mon.check("copies-independent", i2(0.0) == ys[0] and i2(1.0) == ys[1],
                  {"type": "Interpolation-from-lists", "x": xs, "y": ys})
        f = CurveFitting(list(xs), list(ys))
        c = CurveFitting(f)
        v0 = (c.linear_fitting(), len(c))
        f.set([0.0, 1.0, 2.0], [1.0, 3.0, 5.1])
        ok1 = (c.linear_fitting(), len(c)) == v0
        w0 = (f.linear_fitting(), len(f))
        c.set([0.0, 1.0, 2.0], [9.0, 8.0, 7.5])
        ok2 = (f.linear_fitting(), len(f)) == w0
        mon.check("copies-independent", ok1 and ok2,
                  {"type": "CurveFitting", "x": xs, "y": ys})
    # the caller's containers
    for form in ("list1-radians", "list3", "tuple-in-list"):
        mon.evals += 1
        if form == "list1-radians":
            lst = [1.0]
            before = snap(lst)
            Angle(lst, radians=True)
        elif form == "list3":
            lst = [10, 30, 15.5]
            before = snap(lst)
            Angle(lst)
        else:
            lst = [2000, 1, 1.5]
            before = snap(lst)
            Epoch(lst)
        mon.cls("list-or-tuple-argument", ("container", form), [form])
        mon.check("args-unchanged", snap(lst) == before,
                  {"target": form, "before": repr(before),
                   "after": repr(snap(lst))}, key_args(form))
    # module constants passed as arguments
    from pymeeus.Epoch import JDE2000
    from pymeeus.Earth import Earth, WGS84, IAU76
    from pymeeus.Sun import Sun
    from pymeeus.Venus import Venus
    before = (snap(JDE2000), snap(WGS84), snap(IAU76))
    mon.evals += 4
    Sun.apparent_geocentric_position(JDE2000)
    Venus.geocentric_position(JDE2000)
    Earth(WGS84).distance(10.0, 20.0, 30.0, 40.0)
    e = Epoch(JDE2000)
    e += 10
    mon.cls("module-constant-as-argument", ("const",), ["JDE2000", "WGS84"])
    mon.check("args-unchanged", (snap(JDE2000), snap(WGS84), snap(IAU76))
              == before, {"target": "module constants",
                          "before": repr(before)})
    # shared object between two parameters
    a = Angle(33.0)
    from pymeeus import Coordinates as C
    mon.evals += 3
    s0 = snap(a)
    C.angular_separation(a, a, a, a)
    C.equatorial2ecliptical(a, a, a)
    e1 = Epoch(2451545.0)
    C.precession_equatorial(e1, e1, a, a)
    mon.cls("shared-argument-object", ("shared",), ["f(a, a, a, a)"])
    mon.check("args-unchanged", snap(a) == s0 and e1.jde() == 2451545.0,
              {"target": "shared object", "before": repr(s0),
               "after": repr(snap(a))})


def case_out_of_range(mon):
    """Out-of-range but well-typed arguments: rejected with TypeError or
    ValueError, or answered with finite values; never another exception
    class, never a non-value."""
    from pymeeus.Angle import Angle
    from pymeeus.Epoch import Epoch
    from pymeeus.Interpolation import Interpolation
    from pymeeus.CurveFitting import CurveFitting
    from pymeeus.Sun import Sun
    from pymeeus.Moon import Moon
    from pymeeus.Venus import Venus
    from pymeeus.Pluto import Pluto
    from pymeeus.Minor import Minor
    from pymeeus.Earth import Earth
    from pymeeus import Coordinates as C
    e5000 = Epoch(5000, 1, 1)
    itp = Interpolation([0.0, 1.0, 2.0], [1.0, 4.0, 9.0])
    A = Angle
    probes = {
        "Epoch(2000, 13, 1)": lambda: Epoch(2000, 13, 1),
        "Epoch(2000, 0, 1)": lambda: Epoch(2000, 0, 1),
        "Epoch(2000, 1, 32)": lambda: Epoch(2000, 1, 32),
        "Epoch(2000, 2, 30)": lambda: Epoch(2000, 2, 30),
        "Epoch(2000, 1, 1, 24)": lambda: Epoch(2000, 1, 1, 24),
        "Epoch(2000, 1, 1, 0, 60)": lambda: Epoch(2000, 1, 1, 0, 60),
        "Epoch(2000, 1, 1, 0, 0, 60)": lambda: Epoch(2000, 1, 1, 0, 0, 60),
        "Epoch(-4713, 1, 1)": lambda: Epoch(-4713, 1, 1),
        "Epoch(2000, 'Foo', 1)": lambda: Epoch(2000, "Foo", 1),
        "Epoch(2000, 1)": lambda: Epoch(2000, 1),
        "Epoch((2000, 1))": lambda: Epoch((2000, 1)),
        "Epoch.get_doy(2000, 13, 1)": lambda: Epoch.get_doy(2000, 13, 1),
        "Epoch.get_doy(2001, 2, 29)": lambda: Epoch.get_doy(2001, 2, 29),
        "Epoch.get_doy(1500, 2, 30)": lambda: Epoch.get_doy(1500, 2, 30),
        "Epoch.moslem2gregorian(0, 1, 1)":
            lambda: Epoch.moslem2gregorian(0, 1, 1),
        "Epoch.moslem2gregorian(1, 13, 1)":
            lambda: Epoch.moslem2gregorian(1, 13, 1),
        "Epoch.moslem2gregorian(1, 1, 31)":
            lambda: Epoch.moslem2gregorian(1, 1, 31),
        "Epoch.gregorian2moslem(2000, 13, 1)":
            lambda: Epoch.gregorian2moslem(2000, 13, 1),
        "Epoch.get_month(13)": lambda: Epoch.get_month(13),
        "Epoch.get_month('Foo')": lambda: Epoch.get_month("Foo"),
        "Epoch.rise_set(lat 80)": lambda: Epoch(2019, 4, 2).rise_set(
            A(80.0), A(10.0)),
        "Interpolation([1], [2])": lambda: Interpolation([1], [2]),
        "Interpolation(1)": lambda: Interpolation(1),
        "Interpolation(1, 2, 3)": lambda: Interpolation(1, 2, 3),
        "Interpolation dup x": lambda: Interpolation([1.0, 1.0, 2.0],
                                                     [1.0, 2.0, 3.0]),
        "itp(5.0)": lambda: itp(5.0),
        "itp.derivative(-1)": lambda: itp.derivative(-1.0),
        "itp.root(1, 1)": lambda: itp.root(1.0, 1.0),
        "itp.root() no sign change": lambda: itp.root(),
        "CurveFitting(1)": lambda: CurveFitting(1),
        "CurveFitting([1], [2])": lambda: CurveFitting([1], [2]),
        "Sun.get_equinox_solstice(5000)":
            lambda: Sun.get_equinox_solstice(5000, "spring"),
        "Sun.get_equinox_solstice(2000, 'foo')":
            lambda: Sun.get_equinox_solstice(2000, "foo"),
        "Moon.moon_phase(target='foo')":
            lambda: Moon.moon_phase(Epoch(2000, 1, 1), "foo"),
        "Moon.moon_perigee_apogee(target='foo')":
            lambda: Moon.moon_perigee_apogee(Epoch(2000, 1, 1), "foo"),
        "Venus.inferior_conjunction(5000)":
            lambda: Venus.inferior_conjunction(e5000),
        "Venus.station_longitude_1(-3000)":
            lambda: Venus.station_longitude_1(Epoch(-3000, 1, 1)),
        "Pluto.geometric_heliocentric_position(1800)":
            lambda: Pluto.geometric_heliocentric_position(Epoch(1800, 1, 1)),
        "Pluto.geocentric_position(2200)":
            lambda: Pluto.geocentric_position(Epoch(2200, 1, 1)),
        "kepler_equation(e=1.0)": lambda: C.kepler_equation(1.0, A(10.0)),
        "kepler_equation(e=1.5)": lambda: C.kepler_equation(1.5, A(10.0)),
        "kepler_equation(e=-0.5)": lambda: C.kepler_equation(-0.5, A(10.0)),
        "velocity(r > 2a)": lambda: C.velocity(3.0, 1.0),
        "velocity(r = 0)": lambda: C.velocity(0.0, 1.0),
        "velocity_perihelion(e=1)": lambda: C.velocity_perihelion(1.0, 1.0),
        "velocity_aphelion(a=0)": lambda: C.velocity_aphelion(0.5, 0.0),
        "length_orbit(e=1.5)": lambda: C.length_orbit(1.5, 1.0),
        "phase_angle(infeasible)": lambda: C.phase_angle(1.0, 5.0, 1.0),
        "phase_angle(zero distance)": lambda: C.phase_angle(0.0, 1.0, 1.0),
        "illuminated_fraction(zero)":
            lambda: C.illuminated_fraction(0.0, 1.0, 1.0),
        "passage_nodes_elliptic(e=1)": lambda: C.passage_nodes_elliptic(
            A(10.0), 1.0, 1.0, Epoch(2000, 1, 1)),
        "passage_nodes_elliptic(a=0)": lambda: C.passage_nodes_elliptic(
            A(10.0), 0.5, 0.0, Epoch(2000, 1, 1)),
        "Minor(q=0)": lambda: Minor(0.0, 0.5, A(10), A(20), A(30),
                                    Epoch(2000, 1, 1)),
        "Minor(e=1.2).geocentric_position":
            lambda: Minor(1.0, 1.2, A(10), A(20), A(30), Epoch(
                2000, 1, 1)).geocentric_position(Epoch(2000, 3, 1)),
        "Earth.parallax_correction(distance=0)":
            lambda: Earth.parallax_correction(A(10), A(10), A(40), 0.0,
                                              A(30)),
        "diurnal_path_horizon(circumpolar)":
            lambda: C.diurnal_path_horizon(A(80.0), A(80.0)),
        "refraction_true2apparent(-5)":
            lambda: C.refraction_true2apparent(A(-5.0)),
        "angular_separation(lat 95)":
            lambda: C.angular_separation(A(10), A(95), A(20), A(-95)),
        "Angle() / 0": lambda: A(10.0) / 0,
        "Angle() % 0": lambda: A(10.0) % 0,
        "Angle(0) ** -1": lambda: A(0.0) ** -1,
        "planetary_conjunction(2 entries)":
            lambda: C.planetary_conjunction([A(1), A(2)], [A(1), A(2)],
                                            [A(1), A(2)], [A(1), A(2)]),
        "times_rise_transit_set(lat 90)": lambda: C.times_rise_transit_set(
            A(0), A(90), A(40), A(10), A(41), A(10), A(42), A(10),
            A(-0.5667), 56.0, A(100)),
    }
    # tables of uneven length (each argument is a well-typed list of Angles:
    # what is wrong is how they relate): the documented refusal is ValueError
    base = [[A(10.0 + 0.8 * i) for i in range(5)],
            [A(5.0 + 0.2 * i) for i in range(5)],
            [A(11.5 + 0.1 * i) for i in range(5)],
            [A(4.0 + 0.05 * i) for i in range(5)]]
    for k in range(4):
        for how in ("shorter", "longer"):
            tabs = [list(t) for t in base]
            if how == "shorter":
                tabs[k] = tabs[k][:-1]
            else:
                tabs[k] = tabs[k] + [A(20.0)]
            mon.evals += 1
            name = "planetary_conjunction(table %d one entry %s)" % (k, how)
            mon.cls("out-of-range-probe", ("oor", name), [name])
            try:
                r = C.planetary_conjunction(*tabs)
            except ValueError:
                mon.ok("uneven-tables->ValueError")
                continue
            except Exception as ex:
                mon.dev("uneven-tables->ValueError",
                        {"probe": name, "raised": repr(ex)})
                continue
            mon.dev("uneven-tables->ValueError",
                    {"probe": name, "returned": repr(r)[:200]})
    for how, al, de in (("4 declinations", base[0], base[1][:-1]),
                        ("6 declinations", base[0], base[1] + [A(7.0)])):
        mon.evals += 1
        name = "planet_star_conjunction(5 right ascensions, %s)" % how
        try:
            r = C.planet_star_conjunction(al, de, A(11.7), A(4.0))
        except ValueError:
            mon.ok("uneven-tables->ValueError")
            continue
        except Exception as ex:
            mon.dev("uneven-tables->ValueError",
                    {"probe": name, "raised": repr(ex)})
            continue
        mon.dev("uneven-tables->ValueError",
                {"probe": name, "returned": repr(r)[:200]})
    # arguments that name one of a documented closed set of choices (month
    # names, season / phase / apsis / node / declination targets): a string
    # whose letters are not those of a documented choice is refused with
    # ValueError - answering as if it were the nearest choice is a silent
    # non-value.  (Case and surrounding blanks are left out for the month
    # names, which the library documents as tolerant of both.)
    def near_misses(valid, tolerant):
        seen = {v.strip().lower() for v in valid}
        out = []
        for v in valid:
            cand = [v + "k", v + v[-1], v[:-1], v[:4], v[:2], v[1:],
                    v[:3] + "k", v[:3] + "zipan", v[:3] + ".", v[:3] + " " +
                    v[3:], "x" + v, v.replace(v[1], "_", 1), v[::-1]]
            if not tolerant:
                cand += [v + "\n", v + " ", " " + v, v + "\t", v.upper(),
                         v.capitalize(), v + "\x00"]
            for c in cand:
                key = c.strip().lower() if tolerant else c
                if key and key not in seen and c not in out:
                    out.append(c)
        return out + ["", " "]
    months = ["January", "February", "March", "April", "May", "June", "July",
              "August", "September", "October", "November", "December",
              "Jan", "Feb", "Mar", "Apr", "Jun", "Jul", "Aug", "Sep", "Oct",
              "Nov", "Dec"]
    e2000 = (2000, 1, 10)
    named = [
        ("Epoch.get_month(%r)", months, True,
         lambda t: Epoch.get_month(t)),
        ("Epoch.get_month(%r, as_string=True)", months, True,
         lambda t: Epoch.get_month(t, as_string=True)),
        ("Epoch(2000, %r, 15)", months, True, lambda t: Epoch(2000, t, 15)),
        ("Epoch().set(2000, %r, 15)", months, True,
         lambda t: Epoch(*e2000).set(2000, t, 15)),
        ("Sun.get_equinox_solstice(2000, %r)",
         ["spring", "summer", "autumn", "winter"], False,
         lambda t: Sun.get_equinox_solstice(2000, t)),
        ("Moon.moon_phase(e, %r)", ["new", "first", "full", "last"], False,
         lambda t: Moon.moon_phase(Epoch(*e2000), t)),
        ("Moon.moon_perigee_apogee(e, %r)", ["perigee", "apogee"], False,
         lambda t: Moon.moon_perigee_apogee(Epoch(*e2000), t)),
        ("Moon.moon_passage_nodes(e, %r)", ["ascending", "descending"],
         False, lambda t: Moon.moon_passage_nodes(Epoch(*e2000), t)),
        ("Moon.moon_maximum_declination(e, %r)", ["northern", "southern"],
         False, lambda t: Moon.moon_maximum_declination(Epoch(*e2000), t)),
    ]
    for label, valid, tolerant, fn in named:
        for t in near_misses(valid, tolerant):
            name = label % t
            mon.evals += 1
            mon.cls("undocumented-name-probe", ("name", name), [name])
            try:
                r = fn(t)
            except ValueError:
                mon.ok("undocumented-name->ValueError")
                continue
            except Exception as ex:
                mon.dev("undocumented-name->ValueError",
                        {"probe": name, "raised": repr(ex)})
                continue
            mon.dev("undocumented-name->ValueError",
                    {"probe": name, "returned": repr(r)[:200]})
    for name, fn in probes.items():
        mon.evals += 1
        mon.cls("out-of-range-probe", ("oor", name), [name])
        try:
            r = fn()
        except (TypeError, ValueError):
            mon.ok("out-of-range->TypeError|ValueError|value")
            continue
        except ZeroDivisionError as ex:
            ok = name.startswith("Angle(")      # documented for Angle
            mon.check("out-of-range->TypeError|ValueError|value", ok,
                      {"probe": name, "raised": repr(ex)},
                      key_oor(name, ex))
            continue
        except Exception as ex:
            mon.dev("out-of-range->TypeError|ValueError|value",
                    {"probe": name, "raised": repr(ex)}, key_oor(name, ex))
            continue
        bad = finite(r)
        if name.startswith("times_rise_transit_set") and r == (None, None,
                                                               None):
            bad = None
        mon.check("out-of-range->TypeError|ValueError|value", bad is None,
                  {"probe": name, "returned": repr(r)[:200], "problem": bad},
                  key_oor(name, None))


ZERO_SITES = ("kepler_equation(e=1.0)", "velocity(r = 0)",
              "velocity_perihelion(e=1)", "velocity_aphelion(a=0)",
              "phase_angle(zero distance)", "illuminated_fraction(zero)",
              "passage_nodes_elliptic(a=0)", "Minor(q=0)",
              "Earth.parallax_correction(distance=0)")


def key_oor(name, ex):
    """A zero (or e = 1) argument that ends up as a divisor: the call sites
    listed in the recorded finding; any other site is a new violation."""
    if isinstance(ex, ZeroDivisionError) and name in ZERO_SITES:
        return "zero-argument->ZeroDivisionError"
    return None


CASES = {"inventory": case_inventory, "kworder": case_kworder, "module": case_module, "copies": case_copies,
         "out_of_range": case_out_of_range, "threads": case_threads,
         "orders": case_orders}


def run(mon, spec):
    sv = hash((spec["seed"], spec["name"])) & 0xFFFFFFFF
    if spec["module"] == "__suite__":
        # the repository's own tests as one more workload: digest of every
        # module table / constant after each test
        from vpm import suite
        mon.begin("suite", [])
        suite.run_suite(mon, "digests")
        return
    if spec["module"] == "__threads__":
        mon.begin("threads", [spec["ncalls"], sv])
        case_threads(mon, spec["ncalls"], sv)
        return
    if spec["module"] == "__orders__":
        mon.begin("orders", [sv, spec["ncalls"]])
        case_orders(mon, sv, spec["ncalls"])
        return
    if spec["module"] == "__copies__":
        mon.begin("copies", [sv])
        case_copies(mon, sv)
        mon.begin("inventory", [])
        case_inventory(mon)
        mon.begin("kworder", [sv])
        case_kworder(mon, sv)
        mon.begin("out_of_range", [])
        case_out_of_range(mon)
        return
    mon.begin("module", [spec["module"], spec["ncalls"], spec["npairs"], sv])
    case_module(mon, spec["module"], spec["ncalls"], spec["npairs"], sv)
