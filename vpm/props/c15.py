"""C15 - Moon position is physical; lunar event finders agree with it."""
import math
import random

from vpm import history
from vpm.mon import rt
from vpm import seams
from vpm.oracles import sphere as sp

ID = "C15"
RULE = ("Position clauses on seeded epochs in years -2000..4000 (distance, "
        "latitude, parallax, daily advance, illuminated fraction vs the "
        "Sun-Earth-Moon triangle from the library's own apparent Sun and "
        "Moon, node/perigee rates over one Julian year). Finders (phase x4, "
        "perigee/apogee, node passage x2, extreme declination x2): sweep "
        "histories with queries every 1.5 d over 360 d in 8 eras (quick; "
        "6 years in 12 eras thorough) recorded and checked offline (never "
        "backwards, spacing of consecutive distinct results in the natural "
        "range of the synodic / anomalistic / draconic / tropical month, "
        "distance to the query), every calendar day of sample years as query "
        "(incl. 29 Feb of Julian century years), and every distinct result "
        "judged by bracketing on the library's own apparent positions. "
        "Non-trivial = query within 0.5 d of a change of result, leap day of "
        "a Julian century year, era more than 1500 years from 2000, "
        "illuminated fraction within 0.01 of 0 or 1; distinct by (finder, "
        "query) or epoch.")
ASSUMPTIONS = [
    "spacing windows (days): synodic 28.9..30.2, perigee 24.0..29.2, apogee "
    "26.5..28.4, draconic 26.6..27.9, tropical 26.8..27.9 = the ranges seen "
    "on calibration sweeps of the unchanged tree widened by >= 0.3 d; all far "
    "from 0 and from two periods",
    "node / perigee secular rates: -19.3414 and +40.6901 deg per Julian year "
    "+- 0.1 %",
    "phase: sign change of the apparent longitude difference within the time "
    "equivalent of 0.06 deg (0.0049 d); node: |latitude| <= 0.02 deg at the "
    "returned instant",
    "the parallax reported with a perigee/apogee is asin(6378.14 km / "
    "distance at the returned instant) to 2 arcsec (the finder's parallax "
    "series against the position series: at most 0.78 arcsec at perigee and "
    "0.18 at apogee over -2000..4000 on the unchanged tree)",
]
EXHAUSTIVE = {"quick": False, "thorough": False}
J2000 = 2451545.0
AU_KM = 149597870.7
MONTH = {"phase": 29.530589, "apsis": 27.554550, "node": 27.212221,
         "decl": 27.321582}
FINDERS = [("moon_phase", "new", "phase"), ("moon_phase", "first", "phase"),
           ("moon_phase", "full", "phase"), ("moon_phase", "last", "phase"),
           ("moon_perigee_apogee", "perigee", "apsis"),
           ("moon_perigee_apogee", "apogee", "apsis"),
           ("moon_passage_nodes", "ascending", "node"),
           ("moon_passage_nodes", "descending", "node"),
           ("moon_maximum_declination", "northern", "decl"),
           ("moon_maximum_declination", "southern", "decl")]
SPACING = {"phase": (28.9, 30.2), "perigee": (24.0, 29.2),
           "apogee": (26.5, 28.4), "node": (26.6, 27.9),
           "decl": (26.8, 27.9)}


def anchors():
    from pymeeus.Moon import Moon
    return {"Moon.moon_phase": Moon.moon_phase,
            "Moon.moon_perigee_apogee": Moon.moon_perigee_apogee,
            "Moon.moon_passage_nodes": Moon.moon_passage_nodes,
            "Moon.moon_maximum_declination": Moon.moon_maximum_declination,
            "Moon.geocentric_ecliptical_pos": Moon.geocentric_ecliptical_pos}


POINTS = {}
REQUIRED_CLAUSES = [history.CLAUSE, "distance.range", "latitude.range", "parallax==asin",
                    "daily-advance", "illuminated-fraction",
                    "node-rate", "perigee-rate", "phase.longitude-difference",
                    "apsis.distance-extremal", "node.latitude-zero",
                    "declination.extremal", "declination.reported-value",
                    "order.never-backwards", "spacing.one-month",
                    "result.within-1.6-months", "finder.no-exception"]


def shards(tier, seed):
    out = []
    full = tier == "thorough"
    for i in range(8):
        out.append({"name": "pos-%d" % i, "part": "pos", "idx": i,
                    "n": (12000 if full else 1500)})
    for fi in range(len(FINDERS)):
        eras = 12 if full else 8
        for k in range(2 if full else 1):
            out.append({"name": "find-%d-%d" % (fi, k), "part": "find",
                        "finder": fi, "full": full, "half": k})
    return out


def jd_of_year(y):
    return J2000 + (y - 2000.0) * 365.25


def wrap(d):
    return (d + 180.0) % 360.0 - 180.0


# ----------------------------------------------------------------- positions
def case_position(mon, jde):
    from pymeeus.Epoch import Epoch
    from pymeeus.Moon import Moon
    from pymeeus.Sun import Sun
    mon.evals += 1
    e = Epoch(jde)
    case = {"jde": jde}
    ident = ("pos", jde)
    try:
        lo, la, dist, par = Moon.geocentric_ecliptical_pos(e)
        lo2 = Moon.geocentric_ecliptical_pos(Epoch(jde + 1.0))[0]
        lm, bm, dm, pm = Moon.apparent_ecliptical_pos(e)
        ra, dec, dq, pq = Moon.apparent_equatorial_pos(e)
        k = Moon.illuminated_fraction_disk(e)
        ls, bs, rs = Sun.apparent_geocentric_position(e)
    except Exception as ex:
        mon.dev("distance.range", dict(case, raised=repr(ex)))
        return
    if abs(jde - J2000) > 1500 * 365.25:
        mon.cls("era>1500yr-from-2000", ident)
    else:
        mon.cls("position-epoch", ident)
    mon.stat("distance_max_km", dist, case)
    mon.stat("distance_min_km(neg)", -dist, case)
    mon.check("distance.range", 356000.0 <= dist <= 407000.0,
              dict(case, distance_km=dist))
    mon.stat("abs_latitude_deg", abs(la()), case)
    mon.check("latitude.range", abs(la()) <= 5.35, dict(case, lat=la()))
    mon.check("parallax==asin", abs(par.rad() - math.asin(6378.14 / dist))
              <= 1e-12 and dm == dist and dq == dist,
              dict(case, parallax_rad=par.rad(), distance=dist))
    adv = wrap(lo2() - lo())
    mon.stat("daily_advance_max_deg", adv, case)
    mon.stat("daily_advance_min_deg(neg)", -adv, case)
    mon.check("daily-advance", 11.5 <= adv <= 15.6,
              dict(case, advance_deg=adv))
    mon.check("longitude.range", 0.0 <= lo() < 360.0 or -360 < lo() < 360,
              dict(case, lon=lo()))
    # illuminated fraction from the Sun-Earth-Moon triangle
    psi = math.radians(sp.sep_ll(lm(), bm(), ls(), bs()))
    R = rs * AU_KM
    i = math.atan2(R * math.sin(psi), dm - R * math.cos(psi))
    kk = (1.0 + math.cos(i)) / 2.0
    if k < 0.01 or k > 0.99:
        mon.cls("illuminated-fraction-near-0-or-1", ident, dict(case, k=k))
    mon.stat("illuminated_fraction_err", abs(k - kk), case)
    mon.check("illuminated-fraction", 0.0 <= k <= 1.0 and abs(k - kk) <= 0.01,
              dict(case, k=k, geometric_k=kk))
    # secular rates over one Julian year
    a = Moon.longitude_mean_ascending_node(e)()
    b = Moon.longitude_mean_ascending_node(Epoch(jde + 365.25))()
    c = Moon.longitude_mean_perigee(e)()
    d = Moon.longitude_mean_perigee(Epoch(jde + 365.25))()
    nr, pr = wrap(b - a), wrap(d - c)
    mon.check("node-rate", abs(nr / -19.3414 - 1.0) <= 1e-3,
              dict(case, node_rate_deg_per_yr=nr))
    mon.check("perigee-rate", abs(pr / 40.6901 - 1.0) <= 1e-3,
              dict(case, perigee_rate_deg_per_yr=pr))
    mon.check("epoch-unchanged", e.jde() == Epoch(jde).jde(), case)


# ------------------------------------------------------------------- finders
def call_finder(fi, jd):
    from pymeeus.Epoch import Epoch
    from pymeeus.Moon import Moon
    meth, target, kind = FINDERS[fi]
    out = getattr(Moon, meth)(Epoch(jd), rt(target))
    extra = None
    if isinstance(out, tuple):
        extra = out[1]
        out = out[0]
    return out.jde(), extra


def phase_f(k):
    from pymeeus.Epoch import Epoch
    from pymeeus.Moon import Moon
    from pymeeus.Sun import Sun

    def f(t):
        e = seams.raw_epoch(t)
        lm = Moon.apparent_ecliptical_pos(e)[0]()
        ls = Sun.apparent_geocentric_position(e)[0]()
        return wrap(lm - ls - 90.0 * k)
    return f


def moon_dist(t):
    from pymeeus.Epoch import Epoch
    from pymeeus.Moon import Moon
    return Moon.geocentric_ecliptical_pos(seams.raw_epoch(t))[2]


def moon_lat(t):
    from pymeeus.Epoch import Epoch
    from pymeeus.Moon import Moon
    return Moon.apparent_ecliptical_pos(seams.raw_epoch(t))[1]()


def moon_dec(t):
    from pymeeus.Epoch import Epoch
    from pymeeus.Moon import Moon
    return Moon.apparent_equatorial_pos(seams.raw_epoch(t))[1]()


def key_far(fi, q, t):
    """Distance between query and result: the lunation count k is formed from
    a calendar-year fraction times a fixed number of months per year, which
    drifts away from the true count far from 2000."""
    meth, target, kind = FINDERS[fi]
    months = abs(t - q) / MONTH[kind]
    yr = 2000.0 + (q - J2000) / 365.25
    if months <= 2.0 and abs(yr - 2000.0) > 600.0:
        return "lunar-finder.result-drifts-from-query-far-from-2000"
    # the drift is linear in the distance from 2000 (measured on 1.2e5
    # queries of the unchanged tree: worst case 1.47 months at 2000, 1.59 at
    # +-500 years, 1.92 at +-1900): the same mechanism explains an excess
    # over 1.6 months from about 400 years on (1.607 seen at 503), never before
    if months <= 1.50 + 0.00025 * abs(yr - 2000.0):
        return "lunar-finder.result-drifts-from-query-far-from-2000"
    return None


def judge_event(mon, fi, q, t, extra):
    meth, target, kind = FINDERS[fi]
    case = {"finder": meth, "target": target, "query": q, "result": t}
    if kind == "phase":
        k = ["new", "first", "full", "last"].index(target)
        f = phase_f(k)
        h = 0.06 / 12.19
        a, b = f(t - h), f(t + h)
        mon.stat("phase_longitude_err_deg", abs(f(t)), case)
        mon.check("phase.longitude-difference", a < 0.0 < b and b - a < 1.0,
                  lambda: dict(case, f_before=a, f_after=b, at=f(t)))
    elif kind == "apsis":
        h = 0.25
        d0 = moon_dist(t - 0.5) - moon_dist(t - h)    # >0: approaching
        a = moon_dist(t - h + 0.02) - moon_dist(t - h - 0.02)
        b = moon_dist(t + h + 0.02) - moon_dist(t + h - 0.02)
        ok = (a < 0.0 < b) if target == "perigee" else (a > 0.0 > b)
        mon.check("apsis.distance-extremal", ok,
                  lambda: dict(case, rate_before=a, rate_after=b))
        par = math.degrees(math.asin(6378.14 / moon_dist(t)))
        mon.stat("apsis_reported_parallax_err_arcsec %s" % target,
                 abs(extra() - par) * 3600.0, case)
        # the parallax series of the finder against the position series:
        # at most 0.78" (perigee) and 0.18" (apogee) apart over -2000..4000
        # on the unchanged tree; 2" allowed
        mon.check("apsis.reported-parallax",
                  abs(extra() - par) * 3600.0 <= 2.0,
                  lambda: dict(case, reported=extra(), at_instant=par))
    elif kind == "node":
        la = moon_lat(t)
        rate = moon_lat(t + 0.01) - moon_lat(t - 0.01)
        mon.stat("node_latitude_deg", abs(la), case)
        mon.check("node.latitude-zero", abs(la) <= 0.02
                  and (rate > 0) == (target == "ascending"),
                  lambda: dict(case, latitude=la, rate=rate))
    else:
        h = 0.25
        a = moon_dec(t - h + 0.02) - moon_dec(t - h - 0.02)
        b = moon_dec(t + h + 0.02) - moon_dec(t + h - 0.02)
        ok = (a > 0.0 > b) if target == "northern" else (a < 0.0 < b)
        mon.check("declination.extremal", ok,
                  lambda: dict(case, rate_before=a, rate_after=b))
        dv = moon_dec(t)
        mon.stat("declination_reported_err_deg", abs(extra() - dv), case)
        mon.check("declination.reported-value", abs(extra() - dv) <= 0.15,
                  lambda: dict(case, reported=extra(), at_instant=dv))


def spacing_window(fi):
    meth, target, kind = FINDERS[fi]
    if kind == "apsis":
        return SPACING[target]
    return SPACING[kind]


def case_sweep(mon, fi, q0, ndays, step, judge_every=1):
    meth, target, kind = FINDERS[fi]
    P = MONTH[kind]
    log = []
    n = int(ndays / step)
    for i in range(n + 1):
        q = q0 + i * step
        mon.evals += 1
        try:
            t, extra = call_finder(fi, q)
        except Exception as ex:
            mon.dev("finder.no-exception",
                    {"finder": meth, "target": target, "query": q,
                     "raised": repr(ex)})
            log.append(None)
            continue
        mon.ok("finder.no-exception")
        log.append((q, t, extra))
    case0 = {"finder": meth, "target": target, "q0": q0}
    prev = None
    chain = []
    lo, hi = spacing_window(fi)
    distinct = []
    for item in log:
        if item is None:
            prev = None
            chain = []
            continue
        q, t, extra = item
        mon.stat("result_minus_query_months " + meth + "." + target,
                 abs(t - q) / P, dict(case0, query=q, result=t))
        mon.check("result.within-1.6-months", abs(t - q) <= 1.6 * P,
                  lambda: dict(case0, query=q, result=t,
                               months=(t - q) / P),
                  lambda: key_far(fi, q, t))
        if prev is not None:
            mon.check("order.never-backwards", t >= prev[1] - 1e-6,
                      lambda: dict(case0, query=q, result=t,
                                   previous=prev[1]))
            if abs(t - prev[1]) > 1e-6:
                mon.cls("query-within-step-of-change-of-result", (fi, q))
        if not chain or abs(t - chain[-1][1]) > 1e-6:
            if chain:
                gap = t - chain[-1][1]
                mon.stat("spacing_max_d " + meth + "." + target, gap, case0)
                mon.stat("spacing_min_d(neg) " + meth + "." + target, -gap,
                         case0)
                mon.check("spacing.one-month", lo <= gap <= hi,
                          dict(case0, result_a=chain[-1][1], result_b=t,
                               spacing_days=gap, window=[lo, hi]))
            chain.append((q, t, extra))
            distinct.append((q, t, extra))
        prev = (q, t)
    if abs(q0 - J2000) > 1500 * 365.25:
        mon.cls("era>1500yr-from-2000", (fi, q0))
    mon.cls("sweep", (fi, q0, ndays),
            dict(case0, days=ndays, distinct_results=len(distinct)))
    for k, (q, t, extra) in enumerate(distinct):
        if k % judge_every == 0:
            mon.begin("event", [fi, q])
            judge_event(mon, fi, q, t, extra)


def case_event(mon, fi, q):
    meth, target, kind = FINDERS[fi]
    mon.evals += 1
    try:
        t, extra = call_finder(fi, q)
    except Exception as ex:
        mon.dev("finder.no-exception", {"finder": meth, "target": target,
                                        "query": q, "raised": repr(ex)})
        return
    mon.ok("finder.no-exception")
    mon.check("result.within-1.6-months", abs(t - q) <= 1.6 * MONTH[kind],
              {"finder": meth, "target": target, "query": q, "result": t,
               "months": (t - q) / MONTH[kind]}, key_far(fi, q, t))
    judge_event(mon, fi, q, t, extra)


def case_year_days(mon, fi, year):
    """Every calendar day of a year as query (no bracketing: order,
    distance and absence of exceptions)."""
    from pymeeus.Epoch import Epoch
    from vpm.oracles import daycount as dc
    meth, target, kind = FINDERS[fi]
    prev = None
    for m, d, j0, wd, doy in dc.walk_year(year):
        mon.evals += 1
        q = j0 + 0.3
        ident = (fi, year, m, d)
        if m == 2 and d == 29 and year % 100 == 0 and year < 1582:
            mon.cls("leap-day-of-julian-century-year", ident,
                    [meth, target, year, m, d])
        try:
            t, extra = call_finder(fi, q)
        except Exception as ex:
            mon.dev("finder.no-exception",
                    {"finder": meth, "target": target, "date": [year, m, d],
                     "raised": repr(ex)})
            prev = None
            continue
        mon.ok("finder.no-exception")
        mon.check("result.within-1.6-months", abs(t - q) <= 1.6 * MONTH[kind],
                  {"finder": meth, "target": target, "date": [year, m, d],
                   "result": t, "months": (t - q) / MONTH[kind]},
                  key_far(fi, q, t))
        if prev is not None:
            mon.check("order.never-backwards", t >= prev - 1e-6,
                      {"finder": meth, "target": target,
                       "date": [year, m, d], "result": t, "previous": prev})
        prev = t
    mon.cls("every-day-of-year", (fi, year), [meth, target, year])


def case_year_fine(mon, fi, year):
    """A whole calendar year walked in steps of a tenth of a day (3660
    queries): the result never moves backwards.  The finders count periods
    from a year with decimals built from the calendar date; a day-of-year
    slip at a month boundary shows only when the point where the nearest
    event changes falls inside the affected day, and only to queries inside
    that day."""
    from vpm.oracles import daycount as dc
    meth, target, kind = FINDERS[fi]
    j0 = dc.jdn(year, 1, 1) - 0.5
    n = int((dc.jdn(year + 1, 1, 1) - dc.jdn(year, 1, 1)) * 10) + 10
    prev = None
    for k in range(n):
        mon.evals += 1
        q = j0 + 0.1 * k
        try:
            t, extra = call_finder(fi, q)
        except Exception as ex:
            mon.dev("finder.no-exception",
                    {"finder": meth, "target": target, "query": q,
                     "raised": repr(ex)})
            prev = None
            continue
        if prev is not None:
            mon.check("order.never-backwards", t >= prev - 1e-6,
                      lambda: {"finder": meth, "target": target, "query": q,
                               "year": year, "result": t, "previous": prev,
                               "previous_query": q - 0.1})
        prev = t
    mon.cls("year-in-tenths-of-a-day", (fi, year), [meth, target, year])


def case_targets(mon, fi, jde):
    """The target strings are a closed set: anything else - a prefix, a
    suffix, another case, an empty string, the two names run together - is
    refused with ValueError, and the valid one given by keyword or
    positionally means the same."""
    from pymeeus.Epoch import Epoch
    from pymeeus.Moon import Moon
    meth, target, kind = FINDERS[fi]
    f = getattr(Moon, meth)
    valid = [t for (m, t, k) in FINDERS if m == meth]
    bad = ["", target[:1], target[:-1], target[1:], target[:5],
           target.upper(), target.capitalize(), target + " ", " " + target,
           "".join(valid), valid[0] + valid[-1], "ern", "ing", "e", "none",
           # what a pattern match or a stripped comparison lets through
           target + "\n", target + "\r\n", target + "\t", "\n" + target,
           target + "\x00", target + "\n\n", target + "s",
           target + " moon", target + "|" + valid[0], ".*", target + "$"]
    for b in bad:
        if b in valid:
            continue
        mon.evals += 1
        try:
            r = f(Epoch(jde), b)
        except ValueError:
            mon.ok("target.closed-set")
            continue
        except Exception as ex:
            mon.dev("target.closed-set", {"finder": meth, "target": b,
                                          "raised": repr(ex)})
            continue
        mon.dev("target.closed-set", {"finder": meth, "target": b,
                                      "returned": repr(r)[:200]})
    try:
        a = f(Epoch(jde), target)
        k = f(Epoch(jde), target=target)
        same = snap_r(a) == snap_r(k)
    except Exception as ex:
        same, a, k = False, repr(ex), None
    mon.check("target.closed-set", same,
              {"finder": meth, "target": target, "positional": repr(a)[:120],
               "keyword": repr(k)[:120]})
    mon.cls("target-strings", (fi, jde), [meth, target])


def snap_r(r):
    if isinstance(r, tuple):
        return tuple(snap_r(v) for v in r)
    if hasattr(r, "_jde"):
        return r._jde
    if hasattr(r, "_deg"):
        return r._deg
    return r


def case_seam(mon, fi, year):
    """Queries every quarter of a day from 20 December of `year` to
    12 January of the next one: across the New Year (where the finders'
    year-with-decimals restarts; 1582 is ten days short, years <= 0 and
    Julian century years have their own day-of-year rules)."""
    from vpm.oracles import daycount as dc
    meth, target, kind = FINDERS[fi]
    j0 = dc.jdn(year, 12, 20) - 0.5
    prev = None
    for k in range(4 * 24):
        mon.evals += 1
        q = j0 + 0.25 * k
        try:
            t, extra = call_finder(fi, q)
        except Exception as ex:
            mon.dev("finder.no-exception",
                    {"finder": meth, "target": target, "query": q,
                     "seam_after_year": year, "raised": repr(ex)})
            prev = None
            continue
        mon.ok("finder.no-exception")
        mon.check("result.within-1.6-months", abs(t - q) <= 1.6 * MONTH[kind],
                  {"finder": meth, "target": target, "query": q,
                   "result": t, "months": (t - q) / MONTH[kind]},
                  key_far(fi, q, t))
        if prev is not None:
            mon.check("order.never-backwards", t >= prev - 1e-6,
                      {"finder": meth, "target": target, "query": q,
                       "seam_after_year": year, "result": t,
                       "previous": prev})
        prev = t
    mon.cls("across-new-year", (fi, year), [meth, target, year])


CASES = {"history": history.case, "position": case_position, "sweep": case_sweep, "event": case_event,
         "year_days": case_year_days, "seam": case_seam,
         "year_fine": case_year_fine,
         "targets": case_targets}


def run(mon, spec):
    history.run_cases(mon, ID, spec)
    if not sp.self_check():
        raise RuntimeError("sphere self-check failed")
    rng = random.Random(hash((spec["seed"], spec["name"])) & 0xFFFFFFFF)
    if spec["part"] == "pos":
        if spec["idx"] == 0:
            for j in (jd_of_year(-2000.0), jd_of_year(4000.0), J2000,
                      2448724.5):
                mon.begin("position", [j])
                case_position(mon, j)
        for _ in range(spec["n"]):
            j = jd_of_year(rng.uniform(-2000.0, 4000.0))
            mon.begin("position", [j])
            case_position(mon, j)
        return
    fi = spec["finder"]
    full = spec["full"]
    if full:
        eras = [-1990, -1500, -1000, -500, 0, 500, 1000, 1500, 2000, 2500,
                3000, 3990]
        eras = eras[spec["half"]::2]
        ndays = 6 * 365.25
        years = [-1999, -1500, -1000, -500, -4, 0, 300, 900, 1000, 1300, 1500,
                 1582, 1600, 1700, 1900, 2000, 2023, 2024, 2100, 2400, 2800,
                 3000, 3200, 3600, 3999][spec["half"]::2]
        nrand = 300
    else:
        eras = [-1990, -900, 100, 900, 1580, 2000, 3000, 3990]
        if FINDERS[fi][2] == "phase":
            # the ends of the domain, where the series have least margin
            # against the 0.06 degree: one year in every three of the first
            # and last decade (the 8.85-year perigee cycle is covered)
            eras = [-1999, -1996, -1993] + eras + [3985, 3988]
        ndays = 360.0
        years = [900, 1582, 2000] if fi in (0, 4, 6, 8) else [1500, 2024]
        nrand = 40
    for era in eras:
        q0 = jd_of_year(era + rng.uniform(0, 8))
        q0 = min(q0, jd_of_year(3999.9) - ndays)
        mon.begin("sweep", [fi, q0, ndays, 1.5])
        case_sweep(mon, fi, q0, ndays, 1.5, 1 if not full else 6)
    for y in years:
        mon.begin("year_days", [fi, y])
        case_year_days(mon, fi, y)
    for y in [rng.randrange(-1999, 3999)
              for _ in range(160 if full else 40)] + [1582, 1900, 2000]:
        mon.begin("year_fine", [fi, y])
        case_year_fine(mon, fi, y)
    seams = [1582, -1, 0, 1581, 1583, 1599, 1600, 1999, -1999, 3998,
             rng.randrange(-1999, 3999), rng.randrange(-1999, 3999)]
    if full:
        seams += [rng.randrange(-1999, 3999) for _ in range(40)] + \
            [99, 100, 1499, 1500, 1699, 1700, 1899, 1900, 2099, 2100, -101,
             -100, 3, 4]
    for y in seams:
        mon.begin("seam", [fi, y])
        case_seam(mon, fi, y)
    for _ in range(3):
        q = jd_of_year(rng.uniform(-1999.0, 3999.0))
        mon.begin("targets", [fi, q])
        case_targets(mon, fi, q)
    for _ in range(nrand):
        q = jd_of_year(rng.uniform(-1999.0, 3999.0))
        mon.begin("event", [fi, q])
        case_event(mon, fi, q)
