"""C12 - interpolation reproduces polynomials; roots and extrema lie where
asked."""
import math
import random
from fractions import Fraction

ID = "C12"
RULE = ("Seeded generation of tables with n = 2..9 points, abscissae equally "
        "spaced or random with minimum gap >= range/(4n) inside [-50, 50], "
        "supplied in random order; ordinates from integer-coefficient "
        "polynomials of degree < n, sin, exp, or random values with sign "
        "changes (|y| <= 100 for the root/extremum tables). Oracle: the "
        "unique interpolating polynomial through the *supplied* points in "
        "exact rational arithmetic (Fractions), its derivative, and exact "
        "sign tests at the effective limits. Queries: every table point, "
        "random interior points, all input forms and a re-shuffled copy; "
        "root()/minmax() for every pair of table points and random interior "
        "pairs, both orders, limits outside the table, the (0, 0) default. "
        "Conjunction helpers on synthetic planet tracks against an "
        "independent rational interpolation of the coordinate differences. "
        "Non-trivial = unordered input, several sign changes, limits strictly "
        "inside the table, a limit outside, n >= 6, non-polynomial data; "
        "distinct by (table, query).")
ASSUMPTIONS = [
    "well-conditioned tables only (min gap >= range/(4n)) so that the 1e-9 "
    "bound is about the code, not about conditioning",
    "scale for values = max(1, max|y|); for derivatives = max|y| / min gap; "
    "root residual bound = object tolerance + 1e-9 * scale, extremum "
    "residual bound = tolerance + 1e-8 * derivative scale",
    "value and derivative bounds carry a double-precision allowance of "
    "1e-13 times the sum of the absolute values of the Newton-form terms at "
    "the query (a table with a wide hole gives |P'| ~ 1e7 for |y| <= 10, "
    "where 1e-9 * max|y| / min gap is below one ulp of the answer)",
    "root()/minmax() cases where max slope * ulp(x) * 8 exceeds the object's "
    "absolute tolerance 1e-10 (wildly oscillating interpolants) are not "
    "judged: the tolerance is not reachable in double precision there",
    "root()/minmax() are only required to succeed when the exact interpolant "
    "(its derivative) has opposite non-zero signs at the effective limits "
    "(limits sorted, clamped to the table, (0,0) = whole table)",
]
EXHAUSTIVE = {"quick": False, "thorough": False}


def anchors():
    from pymeeus.Interpolation import Interpolation as I
    from pymeeus import Coordinates as C
    return {"Interpolation.set": I.set, "Interpolation.__call__": I.__call__,
            "Interpolation.derivative": I.derivative,
            "Interpolation.root": I.root, "Interpolation.minmax": I.minmax,
            "Interpolation._order_points": I._order_points,
            "planetary_conjunction": C.planetary_conjunction,
            "planet_stars_in_line": C.planet_stars_in_line}


POINTS = {
    "root.swap": ("Interpolation.root", "xl, xh = xh, xl"),
    "root.clamp-low": ("Interpolation.root", "xl = xmin"),
    "root.clamp-high": ("Interpolation.root", "xh = xmax"),
    "root.xl-is-root": ("Interpolation.root", "return xl  # xl is a root"),
    "root.xh-is-root": ("Interpolation.root", "return xh  # xh is a root"),
    "root.newton": ("Interpolation.root", "x = x - y / yp"),
    "root.update-low": ("Interpolation.root", "xl = x\n"),
    "root.update-high": ("Interpolation.root", "xh = x\n"),
    "set.copy": ("Interpolation.set", "self._x = args[0]._x"),
    "set.y-only": ("Interpolation.set", "self._x.append(i)"),
    "set.two-seqs": ("Interpolation.set", "self._x.append(xval)"),
    "set.flat": ("Interpolation.set", "self._x.append(args[2 * i])"),
    "set.duplicate": ("Interpolation.set",
                      "raise ValueError(\"Invalid input: Values in 'x'"),
}
REQUIRED_POINTS = list(POINTS)
REQUIRED_CLAUSES = ["independent-of-other-instances", "history.answers==fresh-object", "copies-independent", "passes-through-points", "value==exact-interpolant",
                    "derivative==exact", "forms-and-order-agree",
                    "refuse.outside-table", "refuse.duplicate-abscissa",
                    "root.found-inside-limits", "root.residual",
                    "extremum.found-inside-limits", "extremum.residual",
                    "conjunction.root-of-dalpha", "conjunction.ddelta",
                    "in-line.root"]


def shards(tier, seed):
    mult = 30 if tier == "thorough" else 1
    return [{"name": "s%02d" % i, "idx": i, "n_tab": 700 * mult,
             "n_root": 500 * mult, "n_conj": 120 * mult} for i in range(16)]


# ---------------------------------------------------------------- exact model
class Poly(object):
    """Interpolating polynomial through (xs, ys) in exact arithmetic
    (Newton form on Fractions)."""

    def __init__(self, xs, ys):
        self.x = [Fraction(v) for v in xs]
        y = [Fraction(v) for v in ys]
        n = len(xs)
        coef = list(y)
        for k in range(1, n):
            for i in range(n - 1, k - 1, -1):
                coef[i] = (coef[i] - coef[i - 1]) / (self.x[i] - self.x[i - k])
        self.c = coef

    def __call__(self, t):
        t = Fraction(t)
        v = self.c[-1]
        for i in range(len(self.c) - 2, -1, -1):
            v = self.c[i] + (t - self.x[i]) * v
        return v

    def d(self, t):
        """Derivative at t (Horner with derivative)."""
        t = Fraction(t)
        v = self.c[-1]
        dv = Fraction(0)
        for i in range(len(self.c) - 2, -1, -1):
            dv = v + (t - self.x[i]) * dv
            v = self.c[i] + (t - self.x[i]) * v
        return dv


def abs_sums(P, t):
    """(A, A') for the Newton form P at t: the sums of the absolute values
    of the terms of P(t) and of P'(t).  Rounding error of any evaluation of
    the Newton form in doubles is a small multiple of eps * A (eps * A' for
    the derivative), however large the cancellation between the terms."""
    c = [abs(float(v)) for v in P.c]
    xs = [float(v) for v in P.x]
    t = float(t)
    A = Ad = 0.0
    for k, ck in enumerate(c):
        f = [abs(t - xs[i]) for i in range(k)]
        prod = 1.0
        for v in f:
            prod *= v
        A += ck * prod
        for j in range(k):
            pj = 1.0
            for i, v in enumerate(f):
                if i != j:
                    pj *= v
            Ad += ck * pj
    return A, Ad


def num(v):
    """Float value of a table entry (Angle or number)."""
    return v._deg if hasattr(v, "_deg") else v


# ---------------------------------------------------------------- generators
def gen_abscissae(rng, n):
    r = rng.random()
    if r < 0.1 and n >= 4:
        # whole (or half, quarter) numbers picked from a grid: unequal steps
        # that are nevertheless round, and now and then a table whose first
        # step, last step and mean step coincide without it being a grid
        h = rng.choice((1, 1, 0.5, 0.25, 2))
        x0 = rng.choice((0, -10, 3))
        if rng.random() < 0.5:
            ks = sorted(rng.sample(range(0, 3 * n), n))
        else:
            ks = [0, 1] + sorted(rng.sample(
                [v / 4.0 for v in range(5, 4 * (n - 2))
                 if v % 4], n - 4)) + [n - 2, n - 1]
        return [x0 + h * k for k in ks]
    if r < 0.4:
        h = rng.choice((1, 1, 0.5, 0.25, 2, 5, 0.125, rng.uniform(0.1, 5)))
        x0 = rng.choice((0, 0, -10, 27.0, rng.uniform(-40, 10)))
        if x0 + h * (n - 1) > 50:
            x0 = -20.0
        if rng.random() < 0.12:
            # Julian-day sized abscissae (how the library itself uses it)
            # ... from steps of days down to an ephemeris tabulated every
            # hour, minute or ten seconds: the abscissae are distinct by a
            # million times the object's tolerance, but not relative to
            # their own size
            h = rng.choice((1, 0.5, 0.25, 2, 5, 10, 1 / 24.0, 1 / 1440.0,
                            10 / 86400.0))
            x0 = float(rng.randrange(2300000, 2600000)) + rng.choice((0, .5))

        xs = [x0 + h * i for i in range(n)]
    else:
        lo = rng.uniform(-50, 20)
        span = rng.uniform(2, 30)
        gap = span / (4.0 * n)
        while True:
            xs = sorted(rng.uniform(lo, lo + span) for _ in range(n))
            if all(b - a >= gap for a, b in zip(xs, xs[1:])):
                break
        if rng.random() < 0.5:
            xs = [round(v, 3) for v in xs]
            if not all(b - a >= gap * 0.9 for a, b in zip(xs, xs[1:])):
                xs = [xs[0] + gap * 2 * i for i in range(n)]
    return xs


def gen_table(rng, for_roots=False):
    n = rng.randrange(2, 10)
    xs = gen_abscissae(rng, n)
    kind = rng.choice(("poly", "poly", "sin", "exp", "signs"))
    if for_roots:
        kind = rng.choice(("signs", "signs", "sin", "polysmall"))
        if n >= 5 and rng.random() < 0.12:
            kind = "flat"
    if kind == "poly":
        deg = rng.randrange(0, n)
        co = [rng.randrange(-5, 6) for _ in range(deg + 1)]
        xc = xs[len(xs) // 2]
        ys = [float(sum(Fraction(c) * (Fraction(x) - Fraction(xc)) ** k
                        for k, c in enumerate(co)) / (10 ** max(0, deg - 2)))
              for x in xs]
    elif kind == "polysmall":
        # low-degree polynomial with roots inside the table
        r1 = rng.uniform(xs[0], xs[-1])
        r2 = rng.uniform(xs[0], xs[-1])
        sc = rng.uniform(0.05, 2.0)
        ys = [sc * (x - r1) * (x - r2) if n > 2 else sc * (x - r1)
              for x in xs]
    elif kind == "flat":
        # a crossing with a horizontal tangent (triple root) or a flat
        # extremum (fourth power): the interpolant changes sign, slowly
        r1 = rng.uniform(xs[0], xs[-1])
        sc = rng.uniform(0.05, 2.0) * rng.choice((-1, 1))
        p = rng.choice((3, 3, 4))
        ys = [sc * (x - r1) ** p for x in xs]
    elif kind == "sin":
        w = rng.uniform(0.05, 2.5 / max(1e-9, (xs[-1] - xs[0]) / (n - 1)) / 3)
        ph = rng.uniform(0, 6.28)
        amp = rng.choice((1.0, 10.0, 0.01, 57.3))
        ys = [amp * math.sin(w * x + ph) for x in xs]
    elif kind == "exp":
        ys = [math.exp((x - min(xs)) / 25.0) * rng.choice((1, -1))
              for x in xs]
    else:
        ys = [rng.uniform(-10, 10) for _ in xs]
        k = rng.randrange(1, 5)
        for _ in range(k):
            i = rng.randrange(n)
            ys[i] = -ys[i]
    order = list(range(n))
    if rng.random() < 0.7:
        rng.shuffle(order)
    return [xs[i] for i in order], [ys[i] for i in order], kind


def build_forms(xs, ys, rng):
    from pymeeus.Interpolation import Interpolation as I
    from pymeeus.Angle import Angle
    forms = {"two-lists": lambda: I(list(xs), list(ys)),
             "two-tuples": lambda: I(tuple(xs), tuple(ys))}
    flat = []
    for a, b in zip(xs, ys):
        flat += [a, b]
    if len(xs) >= 2:
        forms["flat-args"] = lambda: I(*flat)
    perm = list(range(len(xs)))
    rng.shuffle(perm)
    forms["reshuffled"] = lambda: I([xs[i] for i in perm],
                                    [ys[i] for i in perm])
    forms["copy"] = lambda: I(I(list(xs), list(ys)))
    forms["via-set"] = lambda: _via_set(xs, ys)
    # Angle ordinates wrap at 360 (documented caveat): use that form only
    # where no divided difference, partial Horner sum or derivative term can
    # come near 360 anywhere in the table
    sx = sorted(xs)
    span = sx[-1] - sx[0]
    c = Poly(sx, [ys[xs.index(v)] for v in sx]).c
    bound = sum(abs(float(ck)) * max(1.0, k) * max(1.0, span) ** k
                for k, ck in enumerate(c))
    if bound < 300.0:
        forms["angle-ordinates"] = lambda: I(list(xs), [Angle(v) for v in ys])
    return forms


def _via_set(xs, ys):
    from pymeeus.Interpolation import Interpolation as I
    o = I([0, 1, 2], [5, 6, 9])
    o.set(list(xs), list(ys))
    return o


# ----------------------------------------------------------------- cases
def case_table(mon, xs, ys, kind, qseed):
    from pymeeus.Interpolation import Interpolation as I
    rng = random.Random(qseed)
    n = len(xs)
    mon.evals += 1
    P = Poly(xs, ys)
    sx = sorted(xs)
    gapmin = min(b - a for a, b in zip(sx, sx[1:]))
    scale = max(1.0, max(abs(v) for v in ys))
    dscale = max(1.0, max(abs(v) for v in ys) / gapmin)
    ident = ("tab", tuple(xs), tuple(ys))
    if list(xs) != sx:
        mon.cls("unordered-input", ident, [xs, ys] if n <= 4 else None)
    if n >= 6:
        mon.cls("n>=6", ident)
    if kind in ("sin", "exp"):
        mon.cls("non-polynomial-data", ident)
    if gapmin < 1e-9 * max(abs(sx[0]), abs(sx[-1])):
        mon.cls("step-small-relative-to-the-abscissae", ident,
                [xs, ys] if n <= 3 else None)
    case = {"x": xs, "y": ys}
    try:
        itp = I(list(xs), list(ys))
    except Exception as ex:
        mon.dev("passes-through-points", dict(case, raised=repr(ex)))
        return
    # pass-through
    ok = True
    for a, b in zip(xs, ys):
        try:
            v = itp(a)
        except Exception as ex:
            v = repr(ex)
        if v != b:
            ok = False
            mon.dev("passes-through-points", dict(case, at=a, got=v, want=b))
            break
    if ok:
        mon.ok("passes-through-points")
    # interior queries
    qs = [rng.uniform(sx[0], sx[-1]) for _ in range(6)]
    qs += [(a + b) / 2.0 for a, b in zip(sx, sx[1:])][:4]
    qs += [math.nextafter(sx[0], sx[-1]), math.nextafter(sx[-1], sx[0])]
    first = _answers(itp, qs)
    forms = build_forms(xs, ys, rng)
    objs = {}
    for name, fn in forms.items():
        try:
            objs[name] = fn()
        except Exception as ex:
            mon.dev("forms-and-order-agree", dict(case, form=name,
                                                  raised=repr(ex)))
    worst = 0.0
    Psorted = Poly(sx, [ys[xs.index(v)] for v in sx])
    for q in qs:
        mon.evals += 1
        want = P(q)
        wantd = P.d(q)
        # double-precision allowance: a table with a wide hole makes a wild
        # polynomial (|P'| ~ 1e7 for |y| <= 10 was seen) whose value carries
        # rounding noise far above 1e-9 * max|y|
        A, Ad = abs_sums(Psorted, q)
        fpv, fpd = 1e-13 * A, 1e-13 * Ad
        try:
            v = num(itp(q))
            dv = num(itp.derivative(q))
        except Exception as ex:
            mon.dev("value==exact-interpolant", dict(case, at=q,
                                                     raised=repr(ex)))
            continue
        err = abs(Fraction(v) - want)
        # an abscissa within the object's tolerance (1e-10) of a tabulated one
        # is that node (documented): its ordinate is the answer there, and the
        # interpolant may differ from it by |P'| * 1e-10
        node = [b for a, b in zip(xs, ys) if abs(a - q) < 1e-10]
        if node and v == node[0]:
            err = Fraction(0)
            mon.cls("query-within-tolerance-of-a-node", ("nq", q) + ident)
        worst = max(worst, float(err) / scale)
        mon.check("value==exact-interpolant", err <= 1e-9 * scale + fpv,
                  lambda: dict(case, at=q, got=v, exact=float(want)))
        derr = abs(Fraction(dv) - wantd)
        mon.stat("derivative_err/scale", float(derr) / dscale, [xs, ys, q])
        mon.check("derivative==exact", derr <= 1e-9 * dscale + fpd,
                  lambda: dict(case, at=q, got=dv, exact=float(wantd)))
        for name, o in objs.items():
            try:
                v2 = num(o(q))
                d2 = num(o.derivative(q))
            except Exception as ex:
                mon.dev("forms-and-order-agree",
                        dict(case, form=name, at=q, raised=repr(ex)))
                continue
            tolv = 1e-9 * scale + (1e-9 if name == "angle-ordinates" else 0) \
                + fpv
            mon.check("forms-and-order-agree",
                      abs(v2 - v) <= tolv and abs(d2 - dv) <= 1e-9 * dscale
                      + fpd + (1e-9 if name == "angle-ordinates" else 0),
                      lambda: dict(case, form=name, at=q, got=[v2, d2],
                                   reference=[v, dv]))
    mon.stat("value_err/scale", worst, [xs, ys])
    for name in objs:
        mon.cls("form:" + name, ("form", name) + ident)
    # refusals
    span = sx[-1] - sx[0]
    for q in (sx[0] - 0.001 * span - 1e-6, sx[-1] + 0.001 * span + 1e-6,
              sx[0] - 5.0, sx[-1] + 1e6,
              # just further out than the object's node-matching tolerance
              # (1e-10, absolute), whatever the size of the abscissae
              sx[-1] + 2e-10 + 2 * math.ulp(sx[-1]),
              sx[0] - 2e-10 - 2 * math.ulp(sx[0])):
        for label, fn in (("call", lambda: itp(q)),
                          ("derivative", lambda: itp.derivative(q))):
            mon.evals += 1
            try:
                r = fn()
            except ValueError:
                mon.ok("refuse.outside-table")
                continue
            except Exception as ex:
                mon.dev("refuse.outside-table",
                        dict(case, at=q, fn=label, raised=repr(ex)))
                continue
            mon.dev("refuse.outside-table",
                    dict(case, at=q, fn=label, returned=repr(r)))
    # limits that lie wholly outside the table, on either side and in either
    # order, for root() and minmax() - also when the ordinate (or the slope)
    # at the nearer end of the table happens to be zero
    for y_end in (None, 0.0):
        ys2 = list(ys)
        if y_end is not None:
            ys2[xs.index(sx[-1])] = 0.0
            ys2[xs.index(sx[0])] = 0.0
        try:
            it2 = I(list(xs), ys2)
        except Exception as ex:
            # the abscissae are those of a table that was accepted above
            mon.dev("refuse.limits-outside-table",
                    dict(case, y=ys2, constructor_raised=repr(ex)))
            continue
        for (a, b) in ((sx[-1] + 1.0, sx[-1] + 3.0),
                       (sx[-1] + 3.0, sx[-1] + 0.5),
                       (sx[0] - 3.0, sx[0] - 1.0),
                       (sx[0] - 0.5, sx[0] - 100.0)):
            for label, fn in (("root", it2.root), ("minmax", it2.minmax)):
                if label == "minmax" and n < 3:
                    continue
                mon.evals += 1
                try:
                    r = fn(a, b)
                except ValueError:
                    mon.ok("refuse.limits-outside-table")
                    continue
                except Exception as ex:
                    mon.dev("refuse.limits-outside-table",
                            dict(case, y=ys2, fn=label, limits=[a, b],
                                 raised=repr(ex)))
                    continue
                mon.dev("refuse.limits-outside-table",
                        dict(case, y=ys2, fn=label, limits=[a, b],
                             returned=repr(r)))
    i, j = rng.sample(range(n), 2)
    for eps in (0.0, 1e-12):
        x2 = list(xs)
        x2[i] = x2[j] + eps
        mon.evals += 1
        try:
            r = I(x2, list(ys))
        except ValueError:
            mon.ok("refuse.duplicate-abscissa")
            continue
        except Exception as ex:
            mon.dev("refuse.duplicate-abscissa",
                    {"x": x2, "y": ys, "raised": repr(ex)})
            continue
        mon.dev("refuse.duplicate-abscissa",
                {"x": x2, "y": ys, "accepted": repr(r)})
    # y-only form with the implied abscissae 0..n-1
    try:
        o = I(list(ys))
        P0 = Poly(list(range(n)), ys)
        q = rng.uniform(0, n - 1)
        mon.check("forms-and-order-agree",
                  abs(Fraction(num(o(q))) - P0(q)) <= 1e-9 * scale,
                  {"y_only": ys, "at": q, "got": num(o(q)),
                   "exact": float(P0(q))})
        mon.cls("form:y-only", ("yonly",) + ident)
    except Exception as ex:
        mon.dev("forms-and-order-agree", {"y_only": ys, "raised": repr(ex)})
    # the first object, after all the others above were built and used (and
    # one more, differently loaded, is alive), still answers as it did
    other = I([1.0, 2.5, 4.0, 7.0], [3.0, -8.0, 21.0, 2.0])
    _answers(other, [2.0, 5.5])
    again = _answers(itp, qs)
    mon.check("independent-of-other-instances", again == first,
              lambda: dict(case, at=qs, alone=repr(first)[:300],
                           with_other_instances=repr(again)[:300]))


def _answers(itp, qs):
    out = []
    for q in qs:
        for f in (itp, itp.derivative):
            try:
                out.append(num(f(q)))
            except Exception as ex:
                out.append(type(ex).__name__)
    for f in (itp.root, itp.minmax):
        try:
            out.append(num(f()))
        except Exception as ex:
            out.append(type(ex).__name__)
    return out


def eff_limits(xl, xh, sx):
    if xl == 0 and xh == 0:
        return sx[0], sx[-1]
    lo, hi = min(xl, xh), max(xl, xh)
    return max(lo, sx[0]), min(hi, sx[-1])


def case_root(mon, xs, ys, xl, xh, which):
    """which: 'root' or 'minmax'."""
    from pymeeus.Interpolation import Interpolation as I
    mon.evals += 1
    P = Poly(xs, ys)
    sx = sorted(xs)
    gapmin = min(b - a for a, b in zip(sx, sx[1:]))
    scale = max(1.0, max(abs(v) for v in ys))
    dscale = max(1.0, max(abs(v) for v in ys) / gapmin)
    f = P if which == "root" else P.d
    lo, hi = eff_limits(xl, xh, sx)
    if not (lo < hi):
        return
    fl, fh = f(lo), f(hi)
    case = {"x": xs, "y": ys, "xl": xl, "xh": xh, "fn": which}
    ident = (which, tuple(xs), tuple(ys), xl, xh)
    if not (fl * fh < 0):
        mon.refusal("no-sign-change-at-effective-limits(not judged)")
        return
    # is the object's absolute tolerance reachable in double precision?  The
    # best achievable |f(x)| near a root is about slope * ulp(x).
    grid = [Fraction(lo) + (Fraction(hi) - Fraction(lo)) * k / 32
            for k in range(33)]
    fv = [f(g) for g in grid]
    slope = max(abs((b - a) / (grid[1] - grid[0])) for a, b in zip(fv, fv[1:]))
    # a steep stretch can be much narrower than 1/32 of the interval (a
    # 9-point table rising by 1e2 in the last 0.02 of an interval 11 wide):
    # refine the estimate on 1024 sub-intervals in floating point
    # (in the library's own node order: it sorts the abscissae, and the
    # conditioning of a Newton form depends on the order of its nodes)
    Pf = Poly(sx, [P(v) for v in sx]) if which == "root" else \
        Poly(sx, [P.d(v) for v in sx])
    fx = [float(v) for v in Pf.x]
    fc = [float(v) for v in Pf.c]

    def feval(t):
        v = fc[-1]
        for i in range(len(fc) - 2, -1, -1):
            v = fc[i] + (t - fx[i]) * v
        return v
    flo, fhi = float(lo), float(hi)
    hstep = (fhi - flo) / 1024.0
    prevv = feval(flo)
    fine = 0.0
    for k in range(1, 1025):
        cur = feval(flo + k * hstep)
        fine = max(fine, abs(cur - prevv) / hstep)
        prevv = cur
    slope = max(float(slope), fine)
    ulp = math.ulp(max(abs(lo), abs(hi), 1e-300))
    if float(slope) * ulp * 8.0 > 1e-10:
        mon.refusal("tolerance-1e-10-unreachable-in-double(not judged)")
        return
    # ... and the rounding of the evaluation itself: the Newton form sums
    # terms c_k * prod(x - x_i) that cancel; its value carries about
    # 2**-52 * sum |term| of noise (measured: 0.6e-10..1.2e-10 where this
    # bound says 8e-10, 1e-10..3.6e-10 where it says about 3e-10), so
    # |f(x)| <= 1e-10 may never be met once the bound exceeds the tolerance
    Q = Pf
    qx = [float(v) for v in Q.x]
    qc = [abs(float(v)) for v in Q.c]
    cond = 0.0
    for g in grid:
        gf = float(g)
        term, tot = 1.0, 0.0
        for k, ck in enumerate(qc):
            tot += ck * term
            term *= abs(gf - qx[k])
        cond = max(cond, tot)
    if cond * 2.0 ** -52 > 1e-10:
        mon.refusal("tolerance-1e-10-below-evaluation-noise(not judged)")
        return
    signs = sum(1 for a, b in zip(sorted(zip(xs, ys)), sorted(zip(xs, ys))[1:])
                if a[1] * b[1] < 0)
    if signs >= 2:
        mon.cls("several-sign-changes-in-table", ident)
    if lo > sx[0] and hi < sx[-1]:
        mon.cls("limits-strictly-inside-table", ident,
                [xs, ys, xl, xh] if len(xs) <= 5 else None)
    if not (xl == 0 and xh == 0) and (min(xl, xh) < sx[0]
                                      or max(xl, xh) > sx[-1]):
        mon.cls("limit-outside-table", ident,
                [xs, ys, xl, xh] if len(xs) <= 4 else None)
    if xl > xh:
        mon.cls("reversed-limits", ident)
    if xl == 0 and xh == 0:
        mon.cls("default-limits", ident)
    c1 = ("root.found-inside-limits" if which == "root"
          else "extremum.found-inside-limits")
    c2 = "root.residual" if which == "root" else "extremum.residual"
    try:
        itp = I(list(xs), list(ys))
        r = itp.root(xl, xh) if which == "root" else itp.minmax(xl, xh)
        r = num(r)
    except Exception as ex:
        mon.dev(c1, dict(case, effective_limits=[lo, hi],
                         f_at_limits=[float(fl), float(fh)],
                         raised=repr(ex)), key_root(which, ex))
        return
    tol = 1e-10
    slack = 1e-9 * max(1.0, abs(lo), abs(hi))
    mon.check(c1, isinstance(r, (int, float)) and lo - slack <= r <= hi
              + slack, lambda: dict(case, effective_limits=[lo, hi],
                                    returned=r), key_root(which, None))
    if isinstance(r, (int, float)) and sx[0] <= r <= sx[-1]:
        res = abs(f(r))
        bound = tol + (1e-9 * scale if which == "root" else 1e-8 * dscale)
        mon.stat(which + "_residual/bound", float(res) / bound,
                 [xs, ys, xl, xh])
        mon.check(c2, res <= bound,
                  lambda: dict(case, returned=r, residual=float(res),
                               bound=bound))
    # the documented iteration limit: with max_iter = 1, 2 or 4 the call
    # either raises ValueError ("doesn't converge within max_iter
    # iterations") or returns an abscissa that is converged all the same
    c3 = which + ".returned-only-when-converged"
    for k in (1, 2, 4):
        mon.evals += 1
        try:
            it2 = I(list(xs), list(ys))
            rk = num(it2.root(xl, xh, k) if which == "root"
                     else it2.minmax(xl, xh, k))
        except ValueError:
            mon.ok(c3)
            continue
        except Exception as ex:
            mon.dev(c3, dict(case, max_iter=k, raised=repr(ex)))
            continue
        ok = isinstance(rk, (int, float)) and sx[0] <= rk <= sx[-1]
        resk = abs(f(rk)) if ok else None
        boundk = tol + (1e-9 * scale if which == "root" else 1e-8 * dscale)
        mon.check(c3, ok and resk <= boundk,
                  lambda: dict(case, max_iter=k, returned=rk,
                               residual=None if resk is None
                               else float(resk), bound=boundk))


def key_root(which, ex):
    return None


def case_conjunction(mon, seedval):
    """Synthetic tracks: planet 1 and planet 2 (or a star) drifting past each
    other in right ascension."""
    from pymeeus import Coordinates as C
    from pymeeus.Angle import Angle
    rng = random.Random(seedval)
    mon.evals += 1
    n = rng.choice((3, 5, 5, 7, 4, 6))
    n_used = n if n % 2 == 1 else n - 1
    half = n_used // 2
    # (one time in four the meeting takes place at the 0h / 24h seam of the
    # right ascension, where one body is written 359.9 and the other 0.1)
    a0 = rng.choice((rng.uniform(20, 340), rng.uniform(20, 340),
                     rng.uniform(20, 340), rng.uniform(-1.5, 1.5) % 360.0))
    d0 = rng.uniform(-60, 60)
    t0 = rng.uniform(-0.45 * half, 0.45 * half) if half > 0 else 0.0
    ra1, de1, ra2, de2 = [], [], [], []
    v1, v2 = rng.uniform(0.3, 1.2), rng.uniform(-0.2, 0.25)
    c1, c2 = rng.uniform(-0.01, 0.01), rng.uniform(-0.01, 0.01)
    for i in range(n):
        t = i - half
        ra1.append(a0 + v1 * (t - t0) + c1 * (t - t0) ** 2)
        ra2.append(a0 + v2 * (t - t0) + c2 * (t - t0) ** 2)
        de1.append(d0 + 0.3 * t + 0.02 * t * t)
        de2.append(d0 - 2.0 + 0.1 * t)
    ident = ("conj", seedval)
    mon.cls("conjunction-%d-entries" % n, ident)
    A = lambda lst: [Angle(v) for v in lst]  # noqa
    star = rng.random() < 0.4
    try:
        if star:
            sra = Angle(ra2[half])
            if rng.random() < 0.3 and 0.0 < sra._deg < 360.0:
                sra = Angle(sra._deg - 360.0)     # the same right ascension
                mon.cls("star-RA-written-in-(-360,0)", ident)
            n0, dd = C.planet_star_conjunction(A(ra1), A(de1), sra,
                                               Angle(de2[half]))
            ra2u = [ra2[half]] * n
            de2u = [de2[half]] * n
        else:
            n0, dd = C.planetary_conjunction(A(ra1), A(de1), A(ra2), A(de2))
            ra2u, de2u = ra2, de2
    except Exception as ex:
        # as for root(): an answer is owed when the difference in right
        # ascension changes sign between the ends of the table; two
        # conjunctions inside one table (relative curvature beating the
        # relative motion) leave the same sign at both ends
        u2 = [ra2[half]] * n if star else ra2

        def _sw(d):
            return d - 360.0 if d > 180.0 else d + 360.0 if d < -180.0 else d
        e0 = _sw((Angle(ra1[0]) - Angle(u2[0]))._deg)
        e1 = _sw((Angle(ra1[n_used - 1]) - Angle(u2[n_used - 1]))._deg)
        if isinstance(ex, ValueError) and e0 * e1 > 0.0:
            mon.refusal("conjunction:no-sign-change-between-table-ends"
                        "(not judged)")
            return
        mon.dev("conjunction.root-of-dalpha",
                {"seed": seedval, "raised": repr(ex)})
        return
    ts = [i - half for i in range(n_used)]
    def short_way(d):
        return d - 360.0 if d > 180.0 else d + 360.0 if d < -180.0 else d
    dal = [short_way((Angle(ra1[i]) - Angle(ra2u[i]))._deg)
           for i in range(n_used)]
    dde = [(Angle(de1[i]) - Angle(de2u[i]))._deg for i in range(n_used)]
    Pa, Pd = Poly(ts, dal), Poly(ts, dde)
    n0v = num(n0)
    inside = ts[0] <= n0v <= ts[-1]
    res = abs(float(Pa(n0v))) if inside else float("inf")
    mon.check("conjunction.root-of-dalpha", inside and res <= 1e-8,
              {"seed": seedval, "n_0": n0v, "dalpha_at_n0": res,
               "dalpha": dal})
    if inside:
        mon.check("conjunction.ddelta",
                  abs(num(dd) - float(Pd(n0v))) <= 1e-8,
                  {"seed": seedval, "n_0": n0v, "dd": num(dd),
                   "interpolated": float(Pd(n0v))})
    # planet_stars_in_line
    s1 = (a0 - 3.0, d0 - 4.0)
    s2 = (a0 + 2.0, d0 + 5.0)

    def straight(a1, d1):
        a1, d1 = math.radians(a1), math.radians(d1)
        a2, d2 = math.radians(Angle(s1[0])._deg), math.radians(s1[1])
        a3, d3 = math.radians(Angle(s2[0])._deg), math.radians(s2[1])
        return (math.tan(d1) * math.sin(a2 - a3) + math.tan(d2)
                * math.sin(a3 - a1) + math.tan(d3) * math.sin(a1 - a2))
    fx = [straight(Angle(ra1[i])._deg, de1[i]) for i in range(n_used)]
    if fx[0] * fx[-1] < 0:
        mon.evals += 1
        try:
            nl = num(C.planet_stars_in_line(A(ra1), A(de1), Angle(s1[0]),
                                            Angle(s1[1]), Angle(s2[0]),
                                            Angle(s2[1])))
        except Exception as ex:
            mon.dev("in-line.root", {"seed": seedval, "raised": repr(ex)})
            return
        Pl = Poly(ts, fx)
        inside = ts[0] <= nl <= ts[-1]
        mon.check("in-line.root", inside and abs(float(Pl(nl))) <= 1e-8,
                  {"seed": seedval, "n": nl,
                   "functional_at_n": float(Pl(nl)) if inside else None})


def case_narrow(mon, xs, ys, seedval):
    """Limits that are close together but not equal (further apart than ten
    times the object's tolerance, at any size of abscissa) are not refused as
    "equal": that refusal is documented for xl == xh only."""
    from pymeeus.Interpolation import Interpolation as I
    rng = random.Random(seedval)
    sx = sorted(xs)
    itp = I(list(xs), list(ys))
    for _ in range(6):
        mon.evals += 1
        c = rng.uniform(sx[0], sx[-1])
        w = max(abs(c), 1.0) * 10.0 ** rng.uniform(-10.5, -4) + 1e-9
        xl, xh = c - w, c + w
        if xl < sx[0] or xh > sx[-1]:
            continue
        for f in (itp.root, itp.minmax):
            try:
                f(xl, xh)
            except ValueError as ex:
                mon.check("refuse.equal-limits-only-when-equal",
                          "equal" not in str(ex),
                          lambda: {"x": xs, "y": ys, "xl": xl, "xh": xh,
                                   "width": xh - xl, "raised": repr(ex)})
                continue
            except Exception as ex:
                mon.dev("refuse.equal-limits-only-when-equal",
                        {"x": xs, "y": ys, "xl": xl, "xh": xh,
                         "raised": repr(ex)})
                continue
            mon.ok("refuse.equal-limits-only-when-equal")
    mon.cls("narrow-limits", ("narrow", seedval))


def case_objhistory(mon, seedval):
    """One Interpolation object through a random sequence of loads (every
    documented form of set()) and queries; after every load all its answers
    must be, bit for bit, those of a fresh object built from the same data."""
    from pymeeus.Interpolation import Interpolation as I
    rng = random.Random(seedval)
    obj = I([0.0, 1.0, 2.0, 4.0], [5.0, -6.0, 9.0, 1.0])
    steps = []

    def queries(o, xs, r2):
        sx = sorted(xs)
        qs = [r2.uniform(sx[0], sx[-1]) for _ in range(3)]
        out = _answers(o, qs)
        for f in (o.root, o.minmax):
            a = r2.uniform(sx[0], sx[-1])
            b = r2.uniform(sx[0], sx[-1])
            try:
                out.append(num(f(a, b)))
            except Exception as ex:
                out.append(type(ex).__name__)
        return out

    for _ in range(5):
        mon.evals += 1
        xs, ys, _k = gen_table(rng, for_roots=rng.random() < 0.6)
        how = rng.choice(("two-lists", "two-tuples", "flat", "copy",
                          "copy", "y-only"))
        if how == "flat" and len(xs) < 2:
            how = "two-lists"
        qseed = rng.randrange(1 << 30)
        try:
            # the reference first, before the re-used object is loaded
            xq = list(range(len(ys))) if how == "y-only" else xs
            want = queries(I(list(xq), list(ys)), xq, random.Random(qseed))
            if how == "two-lists":
                obj.set(list(xs), list(ys))
            elif how == "two-tuples":
                obj.set(tuple(xs), tuple(ys))
            elif how == "flat":
                flat = []
                for a, b in zip(xs, ys):
                    flat += [a, b]
                obj.set(*flat)
            elif how == "copy":
                obj.set(I(list(xs), list(ys)))
            else:
                obj.set(list(ys))
                xs = list(range(len(ys)))
            steps.append(how)
            got = queries(obj, xs, random.Random(qseed))
        except Exception as ex:
            mon.dev("history.answers==fresh-object",
                    {"seed": seedval, "steps": steps + [how],
                     "raised": repr(ex)})
            return
        ok = got == want
        mon.check("history.answers==fresh-object", ok,
                  lambda: {"seed": seedval, "steps": list(steps), "x": xs,
                           "y": ys, "reloaded_object": repr(got)[:300],
                           "fresh_object": repr(want)[:300]})
        if not ok:
            return
        if rng.random() < 0.5:
            # the tolerance changed *after* the data were loaded: the same
            # answers as an object that was given the tolerance first
            t = rng.choice((1e-9, 1e-11, 1e-8, 1e-10, 1e-10))
            q2 = rng.randrange(1 << 30)
            try:
                ref = I()
                ref.set_tolerance(t)
                ref.set(list(xs), list(ys))
                want = queries(ref, xs, random.Random(q2))
                obj.set_tolerance(t)
                steps.append("set_tolerance(%g)" % t)
                got = queries(obj, xs, random.Random(q2))
            except Exception as ex:
                mon.dev("history.answers==fresh-object",
                        {"seed": seedval, "steps": steps,
                         "raised": repr(ex)})
                return
            mon.check("history.answers==fresh-object", got == want,
                      lambda: {"seed": seedval, "steps": list(steps),
                               "x": xs, "y": ys,
                               "tolerance_after_data": repr(got)[:300],
                               "tolerance_before_data": repr(want)[:300]})
            if got != want:
                return
            # back to the default, so that the next load is compared with
            # a fresh object again
            obj.set_tolerance(1e-10)
            steps.append("set_tolerance(1e-10)")
    mon.cls("object-with-history", ("hist", seedval), steps)
    # a copy (constructor form and set() form) and its source, each re-loaded
    # afterwards: the other one keeps answering as before
    try:
        xa, ya, _k = gen_table(rng)
        xb, yb, _k = gen_table(rng)
        sa = sorted(xa)
        qs = [rng.uniform(sa[0], sa[-1]) for _ in range(3)]
        for form in ("constructor", "set"):
            mon.evals += 1
            src = I(list(xa), list(ya))
            if form == "constructor":
                cpy = I(src)
            else:
                cpy = I([0.0, 1.0, 2.0], [3.0, -1.0, 4.0])
                cpy.set(src)
            c0 = _answers(cpy, qs)
            src.set(list(xb), list(yb))
            c1 = _answers(cpy, qs)
            sb = sorted(xb)
            q2 = [rng.uniform(sb[0], sb[-1]) for _ in range(3)]
            s0 = _answers(src, q2)
            cpy.set([0.0, 1.0, 2.0, 3.0], [1.0, -2.0, 0.5, 7.0])
            s1 = _answers(src, q2)
            mon.check("copies-independent", c1 == c0 and s1 == s0,
                      lambda: {"seed": seedval, "form": form,
                               "copy_before_and_after_source.set":
                               [repr(c0)[:200], repr(c1)[:200]],
                               "source_before_and_after_copy.set":
                               [repr(s0)[:200], repr(s1)[:200]]})
    except Exception as ex:
        mon.dev("copies-independent", {"seed": seedval, "raised": repr(ex)})


CASES = {"table": case_table, "root": case_root,
         "conjunction": case_conjunction, "objhistory": case_objhistory,
         "narrow": case_narrow}


def directed(mon):
    """Witnesses executed by every run."""
    xs, ys = [0, 1, 2, 3, 4], [-3, -1, 2, -1, -5]
    for (xl, xh) in ((0, 1.8), (1.8, 0), (-1, 9), (0.5, 1.9), (2.2, 3.9),
                     (0, 0), (1, 2), (2, 3), (-5, 1.5)):
        mon.begin("root", [xs, ys, xl, xh, "root"])
        case_root(mon, xs, ys, xl, xh, "root")
    for (xl, xh) in ((1, 3), (1.5, 2.5), (0, 0), (0.2, 3.8)):
        mon.begin("root", [xs, ys, xl, xh, "minmax"])
        case_root(mon, xs, ys, xl, xh, "minmax")
    # a limit that is itself a root (documented early returns)
    xs2, ys2 = [0.0, 1.0, 2.0, 3.0], [0.0, 1.0, 0.0, -3.0]
    for (xl, xh) in ((0.0, 0.5), (1.5, 2.0)):
        mon.begin("root", [xs2, ys2, xl, xh, "root"])
        case_root_limit_is_root(mon, xs2, ys2, xl, xh)


def case_root_limit_is_root(mon, xs, ys, xl, xh):
    from pymeeus.Interpolation import Interpolation as I
    mon.evals += 1
    P = Poly(xs, ys)
    try:
        r = num(I(list(xs), list(ys)).root(xl, xh))
    except Exception as ex:
        mon.dev("root.found-inside-limits",
                {"x": xs, "y": ys, "xl": xl, "xh": xh, "raised": repr(ex)})
        return
    mon.cls("limit-is-a-root", ("lim", xl, xh), [xs, ys, xl, xh, r])
    mon.check("root.residual", min(xl, xh) - 1e-9 <= r <= max(xl, xh) + 1e-9
              and abs(P(r)) <= 1e-9,
              {"x": xs, "y": ys, "xl": xl, "xh": xh, "returned": r})


CASES["root_limit"] = case_root_limit_is_root


def run(mon, spec):
    rng = random.Random(spec["seed"] * 1000003 + spec["idx"])
    if spec["idx"] == 0:
        directed(mon)
    for _ in range(spec["n_tab"]):
        xs, ys, kind = gen_table(rng)
        qseed = rng.randrange(1 << 30)
        mon.begin("table", [xs, ys, kind, qseed])
        case_table(mon, xs, ys, kind, qseed)
    for _ in range(max(20, spec["n_tab"] // 2)):
        sv = rng.randrange(1 << 30)
        mon.begin("objhistory", [sv])
        case_objhistory(mon, sv)
    for _ in range(max(20, spec["n_tab"] // 4)):
        xs, ys, kind = gen_table(rng, for_roots=True)
        sv = rng.randrange(1 << 30)
        mon.begin("narrow", [xs, ys, sv])
        case_narrow(mon, xs, ys, sv)
    for _ in range(spec["n_root"]):
        xs, ys, kind = gen_table(rng, for_roots=True)
        sx = sorted(xs)
        span = sx[-1] - sx[0]
        lims = []
        for _k in range(6):
            r = rng.random()
            if r < 0.35:
                a, b = rng.sample(sx, 2)
            elif r < 0.7:
                a, b = rng.uniform(sx[0], sx[-1]), rng.uniform(sx[0], sx[-1])
            elif r < 0.85:
                a = sx[0] - rng.uniform(0.01, 1.0) * span
                b = rng.uniform(sx[0], sx[-1])
                if rng.random() < 0.5:
                    b = sx[-1] + rng.uniform(0.01, 1.0) * span
            elif r < 0.95:
                a = rng.uniform(sx[0], sx[-1])
                b = sx[-1] + rng.uniform(0.01, 1.0) * span
            else:
                a, b = 0, 0
            if rng.random() < 0.3:
                a, b = b, a
            if a != b or (a == 0 and b == 0):
                lims.append((a, b))
        for (a, b) in lims:
            for which in ("root", "minmax"):
                if which == "minmax" and len(xs) < 3:
                    continue
                mon.begin("root", [xs, ys, a, b, which])
                case_root(mon, xs, ys, a, b, which)
    for _ in range(spec["n_conj"]):
        sv = rng.randrange(1 << 30)
        mon.begin("conjunction", [sv])
        case_conjunction(mon, sv)
