"""C02 - instants survive JDE <-> date/time; input forms agree; Epoch
arithmetic and ordering."""
import datetime
import math
import random
from fractions import Fraction

from vpm import attach
from vpm.oracles import daycount as dc
from vpm.props.c01 import LONG, SHORT

ID = "C02"
RULE = ("Seeded generation. (a) JDE in [0, 5.4e6]: uniform, civil midnights "
        "k+0.5, whole minutes and hours of the day in every binade of the "
        "JDE, month/year starts from the day counter, the 1582 reform "
        "instant and powers of two, each with offsets {0, +-1, +-2 ulp, "
        "+-1e-9, +-1e-6 d, +-1 ms, +-1 s}: Epoch(j) -> get_full_date() -> "
        "Epoch(fields); offline checker over the sorted log of (j, fields) "
        "per shard for monotonicity. (b) one civil instant through every "
        "constructor form incl. set() and check_input_date. (c) Epoch "
        "arithmetic / comparisons on (epoch, offset) and (epoch, epoch) "
        "pairs. Epoch class invariant (icontract) active throughout. "
        "Non-trivial = within 1 s of a day boundary, within 1 s of a "
        "month/year boundary or the reform, every non-canonical constructor "
        "form, offsets crossing a month boundary, close Epoch pairs; distinct "
        "by input values.")
ASSUMPTIONS = [
    "on pairs of Epochs closer than 1e-6 day but not equal only <, <=, >, >= "
    "are judged (== and != are documented to use a 1e-10 tolerance)",
    "day counter oracle for month lengths and boundary instants",
]
EXHAUSTIVE = {"quick": False, "thorough": False}
ULP_OFFS = (0.0, 1e-9, -1e-9, 1e-6, -1e-6, 1e-3 / 86400, -1e-3 / 86400,
            1.0 / 86400, -1.0 / 86400)


def anchors():
    from pymeeus.Epoch import Epoch
    return {"Epoch.set": Epoch.set, "Epoch.get_date": Epoch.get_date,
            "Epoch.get_full_date": Epoch.get_full_date,
            "Epoch.check_input_date": Epoch.check_input_date,
            "Epoch._check_values": Epoch._check_values,
            "Epoch.__add__": Epoch.__add__, "Epoch.__sub__": Epoch.__sub__,
            "Epoch.__iadd__": Epoch.__iadd__, "Epoch.__isub__": Epoch.__isub__,
            "Epoch.__radd__": Epoch.__radd__, "Epoch.__eq__": Epoch.__eq__,
            "Epoch.__lt__": Epoch.__lt__, "Epoch.__gt__": Epoch.__gt__}


POINTS = {
    "set.epoch": ("Epoch.set", "self._jde = args[0]._jde"),
    "set.number": ("Epoch.set", "self._jde = args[0]\n"),
    "set.tuple": ("Epoch.set", "self._check_values(*args[0])"),
    "set.datetime": ("Epoch.set", "d.second + d.microsecond / 1e6"),
    "set.date": ("Epoch.set", "d.year, d.month, d.day\n"),
    "set.separate": ("Epoch.set", "self._check_values(*args)"),
    "cid.epoch": ("Epoch.check_input_date", "t = args[0]"),
    "cid.tuple": ("Epoch.check_input_date", "args[0][0], args[0][1]"),
    "cid.date": ("Epoch.check_input_date", "args[0].year, args[0].month"),
    "cid.separate": ("Epoch.check_input_date", "args[0], args[1], args[2]"),
    "get_date.julian": ("Epoch.get_date", "a = z"),
    "get_date.gregorian": ("Epoch.get_date", "alpha = iint"),
}
REQUIRED_POINTS = list(POINTS)
REQUIRED_CLAUSES = ["roundtrip<=1e-8", "fields.canonical", "fields.types",
                    "fields==instant(daycount)", "monotone.date-tuple",
                    "forms.agree<=1e-9", "arith.(e+x)-e==x",
                    "arith.e-(e-x)==x", "arith.radd==add", "arith.iadd==add",
                    "arith.isub==sub", "arith.e-f==jde-diff",
                    "order.matches-jde", "hash.equal", "set==constructor"]
REQUIRED_CONTRACTS = ["invariant:Epoch(jde finite real)"]


def shards(tier, seed):
    mult = 20 if tier == "thorough" else 1
    n = 16
    return [{"name": "s%02d" % i, "idx": i, "n_rt": 12000 * mult,
             "n_forms": 2500 * mult, "n_arith": 6000 * mult}
            for i in range(n)]


# ----------------------------------------------------------------- generators
def gen_base_jde(rng):
    r = rng.random()
    if r < 0.12:
        return rng.uniform(0.0, 5.4e6), "uniform"
    if r < 0.25:
        # whole minutes / hours of the day, in every binade of the JDE (the
        # float resolution of the day fraction changes with the magnitude)
        top = 2 ** rng.randrange(2, 23)
        day = float(rng.randrange(top // 2, min(top, 5400000)))
        if rng.random() < 0.3:
            frac = rng.randrange(24) / 24.0
            return day + frac, "hour-boundary"
        return day + rng.randrange(1440) / 1440.0, "minute-boundary"
    if r < 0.45:
        return float(rng.randrange(0, 5400000)) + 0.5, "midnight"
    if r < 0.75:
        y = rng.randrange(-4712, 6001)
        m = 1 if rng.random() < 0.4 else rng.randrange(1, 13)
        return dc.jd0h(y, m, 1), "month-start" if m > 1 else "year-start"
    if r < 0.85:
        return 2299160.5, "reform"
    if r < 0.93:
        return float(2 ** rng.randrange(1, 23)), "power-of-two"
    return float(rng.randrange(0, 5400000)), "noon"


def gen_jde(rng):
    base, cls = gen_base_jde(rng)
    r = rng.random()
    if r < 0.35:
        j = base + rng.choice(ULP_OFFS)
    elif r < 0.6:
        j = base
        for _ in range(rng.randrange(1, 3)):
            j = math.nextafter(j, rng.choice((0.0, 1e9)))
    else:
        j = base + rng.choice((-1, 1)) * 10.0 ** rng.uniform(-10, 0)
    if j < 0.0 or j > 5.4e6:
        j = base
    return j, cls


# ------------------------------------------------------------------- (a), (b)
def case_roundtrip(mon, j, cls="replay", log=None):
    from pymeeus.Epoch import Epoch
    mon.evals += 1
    try:
        e = Epoch(j)
        full = e.get_full_date()
    except Exception as ex:
        mon.dev("roundtrip<=1e-8", {"jde": j, "raised": repr(ex)})
        return
    y, m, d, h, mi, s = full
    fr = (Fraction(j) + Fraction(1, 2))
    day_frac = float(fr - math.floor(fr))
    near = min(day_frac, 1.0 - day_frac) * 86400.0 < 1.0
    if near:
        mon.cls("within-1s-of-day-boundary", (j,), [j, list(full)])
    if cls in ("month-start", "year-start", "reform") and near:
        mon.cls("within-1s-of-" + cls, (j,), [j, list(full)])
    if cls in ("minute-boundary", "hour-boundary"):
        mon.cls("at-" + cls, (j,), [j, list(full)])
    mon.check("jde()~=input", abs(e.jde() - j) <= 1e-8 and e() == e.jde()
              and float(e) == e.jde(), {"jde": j, "stored": e.jde()})
    mon.check("fields.types", all(type(v) is int for v in (y, m, d, h, mi))
              and isinstance(s, float), {"jde": j, "fields": list(full)})
    ok = (1 <= m <= 12 and 0 <= h <= 23 and 0 <= mi <= 59 and 0 <= s < 60)
    if ok:
        try:
            ok = d in dc.month_days(y, m)
        except Exception:
            ok = False
    mon.check("fields.canonical", ok, {"jde": j, "fields": list(full)})
    # the same fields turned into an instant by the day counter (independent
    # of the library's constructor)
    try:
        inst = dc.jd0h(y, m, d) + (h * 3600.0 + mi * 60.0 + s) / 86400.0
    except Exception:
        inst = float("inf")
    mon.check("fields==instant(daycount)", abs(inst - j) <= 1e-8,
              {"jde": j, "fields": list(full), "instant_of_fields": inst})
    try:
        back = Epoch(y, m, d, h, mi, s).jde()
        err = abs(back - j)
    except Exception as ex:
        back, err = repr(ex), float("inf")
    mon.stat("roundtrip_err_days", err if err != float("inf") else 1e9, j)
    mon.check("roundtrip<=1e-8", err <= 1e-8,
              {"jde": j, "fields": list(full), "rebuilt": back})
    if log is not None:
        log.append((j, full))


def check_monotone(mon, log):
    """Offline checker over the recorded (jde, fields) log of one shard."""
    log.sort(key=lambda t: t[0])
    prev = None
    for j, full in log:
        if prev is not None and j > prev[0]:
            ok = tuple(full) >= tuple(prev[1])
            if not ok:
                mon.begin("monotone_pair", [prev[0], j])
            mon.check("monotone.date-tuple", ok,
                      {"jde_a": prev[0], "fields_a": list(prev[1]),
                       "jde_b": j, "fields_b": list(full)})
            if (j - prev[0]) < 1e-6:
                mon.cls("close-pair-in-log", (prev[0], j))
        prev = (j, full)


def case_monotone_pair(mon, ja, jb):
    from pymeeus.Epoch import Epoch
    mon.evals += 2
    log = [(ja, Epoch(ja).get_full_date()), (jb, Epoch(jb).get_full_date())]
    check_monotone(mon, log)


# ------------------------------------------------------------------------ (c)
def gen_civil(rng):
    r = rng.random()
    if r < 0.5:
        y = rng.randrange(1, 10000)
    else:
        y = rng.randrange(-4712, 6001)
    m = rng.randrange(1, 13)
    days = dc.month_days(min(y, 6000), m) if y <= 6000 else \
        list(range(1, 29))
    d = rng.choice(days) if rng.random() < 0.7 else rng.choice(
        (days[0], days[-1]))
    r = rng.random()
    if r < 0.15:
        h, mi, us = rng.randrange(24), rng.randrange(60), 0
    elif r < 0.2:
        h, mi, us = 0, 0, 0
    elif r < 0.4:
        h, mi, us = 23, 59, 59999999 - rng.randrange(0, 3)
    else:
        h, mi, us = rng.randrange(24), rng.randrange(60), \
            rng.randrange(60000000)
    return y, m, d, h, mi, us   # seconds = us / 1e6


def case_forms(mon, y, m, d, h, mi, us):
    from pymeeus.Epoch import Epoch
    s = us / 1e6
    frac = (h + (mi + s / 60.0) / 60.0) / 24.0
    forms = {}

    def add(name, fn):
        mon.evals += 1
        try:
            forms[name] = fn().jde()
        except Exception as ex:
            forms[name] = repr(ex)

    def via_set(*a, **kw):
        e = Epoch(12345.678)
        e.set(*a, **kw)
        return e

    add("separate", lambda: Epoch(y, m, d, h, mi, s))
    add("tuple", lambda: Epoch((y, m, d, h, mi, s)))
    add("list", lambda: Epoch([y, m, d, h, mi, s]))
    add("short-name", lambda: Epoch(y, SHORT[m - 1], d, h, mi, s))
    add("long-name", lambda: Epoch(y, LONG[m - 1], d, h, mi, s))
    add("upper-name", lambda: Epoch(y, LONG[m - 1].upper(), d, h, mi, s))
    add("lower-short-in-list", lambda: Epoch([y, SHORT[m - 1].lower(), d, h,
                                              mi, s]))
    add("float-month", lambda: Epoch(y, float(m), d, h, mi, s))
    add("day-fraction", lambda: Epoch(y, m, d + frac))
    add("day-fraction-tuple", lambda: Epoch((y, m, d + frac)))
    add("hour-fraction", lambda: Epoch(y, m, d, h + (mi + s / 60.0) / 60.0))
    add("set-separate", lambda: via_set(y, m, d, h, mi, s))
    add("set-tuple", lambda: via_set((y, m, d, h, mi, s)))
    add("set-day-fraction", lambda: via_set(y, m, d + frac))
    add("copy", lambda: Epoch(Epoch(y, m, d, h, mi, s)))
    add("set-copy", lambda: via_set(Epoch(y, m, d, h, mi, s)))
    add("from-jde", lambda: Epoch(Epoch(y, m, d, h, mi, s).jde()))
    # the constructor's options spelled out with their default values
    add("utc=False", lambda: Epoch(y, m, d, h, mi, s, utc=False))
    add("local=False", lambda: Epoch(y, m, d, h, mi, s, local=False))
    add("utc=False,local=False-tuple",
        lambda: Epoch((y, m, d, h, mi, s), local=False, utc=False))
    add("set-jde-utc=False", lambda: via_set(Epoch(y, m, d, h, mi, s).jde(),
                                             utc=False))
    add("set-epoch-local=False", lambda: via_set(Epoch(y, m, d, h, mi, s),
                                                 local=False))
    add("check_input_date-separate",
        lambda: Epoch.check_input_date(y, m, d + frac))
    add("check_input_date-tuple",
        lambda: Epoch.check_input_date((y, m, d + frac)))
    add("check_input_date-epoch",
        lambda: Epoch.check_input_date(Epoch(y, m, d, h, mi, s)))
    dt_ok = 1 <= y <= 9999
    if dt_ok:
        try:
            dt = datetime.datetime(y, m, d, h, mi, us // 1000000,
                                   us % 1000000)
        except ValueError:
            dt = None      # a Julian-calendar date datetime does not have
        if dt is not None:
            add("datetime", lambda: Epoch(dt))
            add("set-datetime", lambda: via_set(dt))
            if h == 0 and mi == 0 and us == 0:
                add("date", lambda: Epoch(dt.date()))
                add("check_input_date-date",
                    lambda: Epoch.check_input_date(dt.date()))
                add("check_input_date-datetime",
                    lambda: Epoch.check_input_date(dt))
    # the shorter signatures: four values (seconds and minutes omitted) and
    # five (seconds omitted) mean 0 for what is left out
    try:
        want5 = Epoch(y, m, d, h, mi, 0.0).jde()
        want4 = Epoch(y, m, d, h, 0, 0.0).jde()
        short = {"five-values": Epoch(y, m, d, h, mi).jde() - want5,
                 "five-values-tuple": Epoch((y, m, d, h, mi)).jde() - want5,
                 "five-values-list-name":
                 Epoch([y, LONG[m - 1], d, h, mi]).jde() - want5,
                 "five-values-set": via_set(y, m, d, h, mi).jde() - want5,
                 "four-values": Epoch(y, m, d, h).jde() - want4,
                 "four-values-tuple": Epoch((y, m, d, h)).jde() - want4}
        mon.evals += 6
        mon.check("forms.agree<=1e-9",
                  all(abs(v) <= 1e-9 for v in short.values()),
                  lambda: {"civil": [y, m, d, h, mi],
                           "jde_minus_six_value_form": short})
    except Exception as ex:
        mon.dev("forms.agree<=1e-9", {"civil": [y, m, d, h, mi],
                                      "short_signature_raised": repr(ex)})
    ref = forms["separate"]
    bad = {k: v for k, v in forms.items()
           if not isinstance(v, float) or not isinstance(ref, float)
           or abs(v - ref) > 1e-9}
    for k in forms:
        mon.cls("form:" + k, (k, y, m, d, h, mi, us))
    worst = max([abs(v - ref) for v in forms.values()
                 if isinstance(v, float) and isinstance(ref, float)] or [0])
    mon.stat("forms_spread_days", worst, [y, m, d, h, mi, s])
    mon.check("forms.agree<=1e-9", not bad,
              lambda: {"instant": [y, m, d, h, mi, s], "separate": ref,
                       "disagreeing": bad})
    # reading the instant back must give canonical fields again
    if isinstance(ref, float):
        try:
            fy, fm, fd, fh, fmi, fs = Epoch(y, m, d, h, mi, s).get_full_date()
            okf = (0 <= fh <= 23 and 0 <= fmi <= 59 and 0.0 <= fs < 60.0
                   and abs(((fh * 60 + fmi) * 60 + fs)
                           - ((h * 60 + mi) * 60 + s)) % 86400.0 < 1e-3 + 0
                   or abs(abs(((fh * 60 + fmi) * 60 + fs)
                              - ((h * 60 + mi) * 60 + s)) - 86400.0) < 1e-3)
            okf = okf and 0 <= fh <= 23 and 0 <= fmi <= 59 \
                and 0.0 <= fs < 60.0
        except Exception as ex_:
            okf, fh, fmi, fs = False, repr(ex_), None, None
        mon.check("fields.canonical", okf,
                  lambda: {"instant": [y, m, d, h, mi, s],
                           "read_back": [fh, fmi, fs]})
    # the civil-day value itself, against the day counter
    if isinstance(ref, float) and y <= 6000:
        want = dc.jd0h(y, m, d) + frac
        mon.check("forms.value==daycount", abs(ref - want) <= 1e-9,
                  {"instant": [y, m, d, h, mi, s], "jde": ref,
                   "expected": want})


# ------------------------------------------------------------------------ (d)
def case_arith(mon, j, x):
    """x: int or float offset in days; result stays inside [0, 5.4e6]."""
    from pymeeus.Epoch import Epoch
    mon.evals += 1
    e = Epoch(j)
    j_before = e._jde
    try:
        r = e + x
        rs = e - x
        rr = x + e
        d1 = r - e
        d2 = e - rs
        a = Epoch(e)
        a += x
        b = Epoch(e)
        b -= x
    except Exception as ex:
        mon.dev("arith.(e+x)-e==x", {"jde": j, "x": x, "raised": repr(ex)})
        return
    if abs(x) >= 28:
        mon.cls("offset-crosses-month", (j, x))
    if isinstance(x, int):
        mon.cls("int-offset", (j, x), [j, x])
    mon.check("arith.types", type(r).__name__ == "Epoch"
              and type(rs).__name__ == "Epoch" and isinstance(d1, float)
              and type(a).__name__ == "Epoch",
              {"jde": j, "x": x, "types": [type(r).__name__,
                                           type(d1).__name__]})
    mon.stat("arith_err_days", max(abs(d1 - x), abs(d2 - x)), [j, x])
    mon.check("arith.(e+x)-e==x", abs(d1 - x) <= 1e-8,
              {"jde": j, "x": x, "(e+x)-e": d1})
    mon.check("arith.e-(e-x)==x", abs(d2 - x) <= 1e-8,
              {"jde": j, "x": x, "e-(e-x)": d2})
    mon.check("arith.radd==add", rr.jde() == r.jde(),
              {"jde": j, "x": x, "x+e": rr.jde(), "e+x": r.jde()})
    mon.check("arith.iadd==add", a.jde() == r.jde(),
              {"jde": j, "x": x, "e+=x": a.jde(), "e+x": r.jde()})
    mon.check("arith.isub==sub", b.jde() == rs.jde(),
              {"jde": j, "x": x, "e-=x": b.jde(), "e-x": rs.jde()})
    mon.check("arith.operand-unchanged", e._jde == j_before,
              {"jde": j, "x": x, "after": e._jde})
    # translation of the date: the civil day moves by the whole days of x
    if isinstance(x, int):
        ya = dc.from_jdn(math.floor(Fraction(j) + Fraction(1, 2)) + x)
        got = r.get_date()
        mon.check("arith.date-translates",
                  (got[0], got[1], int(got[2])) == ya
                  or abs((j + x + 0.5) % 1.0 - 0.5) > 0.5 - 1e-6,
                  {"jde": j, "x": x, "date": list(got), "expected": list(ya)})


def case_order(mon, ja, jb):
    from pymeeus.Epoch import Epoch
    mon.evals += 1
    a, b = Epoch(ja), Epoch(jb)
    # the constructor re-derives the JDE from the date fields: compare on
    # what the two objects actually hold
    ja_in, jb_in = ja, jb
    ja, jb = a.jde(), b.jde()
    if ja != jb and abs(ja - jb) < 1e-6:
        # == and != are documented to use a 1e-10 tolerance, so they are not
        # judged on such a pair; the four order operators are
        mon.cls("epoch-pair-closer-than-1e-6", (ja, jb), [ja, jb])
        try:
            got4 = [a < b, a <= b, a > b, a >= b]
        except Exception as ex:
            mon.dev("order.matches-jde", {"a": ja, "b": jb,
                                          "raised": repr(ex)})
            return
        want4 = [ja < jb, ja <= jb, ja > jb, ja >= jb]
        mon.check("order.matches-jde", got4 == want4,
                  {"a": ja, "b": jb, "lt_le_gt_ge": got4,
                   "jde_relations": want4})
        # ... and == / != outside the band around the documented tolerance:
        # further apart than 2e-10 day the two are different instants, closer
        # than 0.5e-10 they are the same (a few ulps are 5e-10 day and more
        # at present-day JDEs)
        gap = abs(ja - jb)
        if gap > 2e-10 or gap < 0.5e-10:
            try:
                eq = [a == b, a != b, b == a, a == jb, a != jb]
            except Exception as ex:
                mon.dev("order.matches-jde", {"a": ja, "b": jb,
                                              "raised": repr(ex)})
                return
            same = gap < 0.5e-10
            mon.check("order.matches-jde",
                      eq == [same, not same, same, same, not same],
                      {"a": ja, "b": jb, "gap_day": gap,
                       "eq_ne_eqrev_eqnum_nenum": eq,
                       "documented_tolerance": 1e-10})
        return
    if ja != jb and abs(ja - jb) < 1e-3:
        mon.cls("close-epoch-pair", (ja, jb), [ja, jb])
    if ja == jb:
        mon.cls("equal-epoch-pair", (ja, jb))
    try:
        got = [a < b, a <= b, a == b, a != b, a > b, a >= b]
        gotn = [a < jb, a <= jb, a == jb, a != jb, a > jb, a >= jb]
        diff = a - b
    except Exception as ex:
        mon.dev("order.matches-jde", {"a": ja, "b": jb, "raised": repr(ex)})
        return
    want = [ja < jb, ja <= jb, ja == jb, ja != jb, ja > jb, ja >= jb]
    mon.check("order.matches-jde", got == want and gotn == want
              and all(type(v) is bool for v in got),
              {"a": ja, "b": jb, "epoch_vs_epoch": got,
               "epoch_vs_number": gotn, "jde_relations": want})
    mon.check("arith.e-f==jde-diff", isinstance(diff, float)
              and diff == ja - jb, {"a": ja, "b": jb, "a-b": diff})
    if ja == jb:
        mon.check("hash.equal", hash(a) == hash(b) and len({a, b}) == 1,
                  {"a": ja, "b": jb})


def epoch_views(e):
    """Everything an Epoch says about its instant without options."""
    def g(f):
        try:
            return f()
        except Exception as ex:
            return ("raised", type(ex).__name__)
    return (g(e.jde), g(e.get_date), g(e.get_full_date), g(e.year), g(e.doy),
            g(e.dow), g(e.mjd), g(e.julian), g(e.leap), g(lambda: str(e)),
            g(lambda: float(e)), g(lambda: hash(e)))


def case_objhistory(mon, seedval):
    """One Epoch object through a random sequence of option-carrying reads
    (utc=, leap_seconds=, local= are parameters of a read, not state) and
    loads (every form of set(), with and without options): after each step
    all its plain views are those of a fresh Epoch of the same JDE."""
    from pymeeus.Epoch import Epoch
    rng = random.Random(seedval)
    e = Epoch(2451545.0)
    steps = []
    for _ in range(8):
        mon.evals += 1
        j, _c = gen_jde(rng)
        if rng.random() < 0.5:
            j = rng.uniform(2441317.5, 2462502.5)       # 1972..2029
        y, mo, d, h, mi, us = gen_civil(rng)
        op = rng.choice(("read", "read", "read-utc", "read-leap",
                         "read-full-utc", "read-full-leap", "set-jde",
                         "set-jde-utc", "set-jde-leap", "set-ymd",
                         "set-ymd-utc", "set-epoch", "set-epoch-utc",
                         "set-tuple", "iadd", "isub", "set-empty",
                         "set-options-only"))
        # the time-scale options are quantified over 1950..2100 (C10); far
        # outside, get_date(utc=True) meets datetime's year range
        if op.endswith(("utc", "leap")) or op == "set-options-only":
            j = rng.uniform(2441317.5, 2462502.5)
            y = rng.randrange(1972, 2030)
            d = min(d, 28)
            if op.startswith("read") and not (2433282.5 < e.jde()
                                              < 2488070.5):
                op = "read"
        try:
            if op == "read":
                epoch_views(e)
            elif op == "read-utc":
                e.get_date(utc=True)
            elif op == "read-leap":
                e.get_date(leap_seconds=rng.choice((0.0, 35.0, 10)))
            elif op == "read-full-utc":
                e.get_full_date(utc=True)
            elif op == "read-full-leap":
                e.get_full_date(leap_seconds=rng.choice((27.0, 37, 1)))
            elif op.startswith("set-"):
                kw = {}
                if op == "set-jde":
                    a = (j,)
                elif op == "set-jde-utc":
                    a, kw = (j,), {"utc": True}
                elif op == "set-jde-leap":
                    a, kw = (j,), {"leap_seconds":
                                   rng.choice((0.0, 35.0, 12))}
                elif op == "set-ymd":
                    a = (y, mo, d, h, mi, us / 1e6)
                elif op == "set-ymd-utc":
                    a, kw = (y, mo, d, h, mi, us / 1e6), {"utc": True}
                elif op == "set-epoch":
                    a = (Epoch(j),)
                elif op == "set-epoch-utc":
                    a, kw = (Epoch(j),), {"utc": True}
                elif op == "set-tuple":
                    a = ((y, mo, d + h / 24.0),)
                elif op == "set-empty":
                    a = ()
                else:                           # set-options-only
                    a, kw = (), rng.choice(({"utc": True},
                                            {"leap_seconds": 0.0},
                                            {"utc": False}))
                e.set(*a, **kw)
                # set() versus constructor: the same arguments, the same
                # instant, whatever the object held before
                want = Epoch(*a, **kw).jde()
                mon.check("set==constructor", abs(e.jde() - want) <= 1e-9,
                          lambda: {"seed": seedval, "steps": steps + [op],
                                   "args": repr(a), "options": repr(kw),
                                   "object_after_set": e.jde(),
                                   "constructor": want})
                if not a:
                    mon.cls("set-without-a-date", ("ehist", seedval, op))
            elif op == "iadd":
                e += rng.choice((1, 0.5, rng.uniform(-500, 500)))
            else:
                e -= rng.choice((1, 0.25, rng.uniform(-500, 500)))
            steps.append(op)
            got = epoch_views(e)
            fresh = epoch_views(Epoch(e.jde()))
        except Exception as ex:
            mon.dev("history.views==fresh-object",
                    {"seed": seedval, "steps": steps + [op],
                     "raised": repr(ex)})
            return
        # a fresh Epoch(jde) re-derives the JDE from the date fields: the
        # float views may differ in the last place, the calendar ones may not
        ok = (abs(got[0] - fresh[0]) <= 1e-9 and got[1:3] == fresh[1:3]
              and got[5] == fresh[5] and got[7:9] == fresh[7:9]) \
            if isinstance(got[0], float) and isinstance(fresh[0], float) \
            else got == fresh
        if ok and isinstance(got[1], tuple) and isinstance(fresh[1], tuple):
            pass
        elif got[1:3] != fresh[1:3]:
            # dates within 1e-9 day of each other across a field boundary
            ok = False
        mon.check("history.views==fresh-object", ok,
                  lambda: {"seed": seedval, "steps": list(steps),
                           "object": repr(got)[:400],
                           "fresh_object_of_same_jde": repr(fresh)[:400]})
        if not ok:
            return
    mon.cls("epoch-object-with-history", ("ehist", seedval), steps)


CASES = {"objhistory": case_objhistory, "roundtrip": case_roundtrip, "monotone_pair": case_monotone_pair,
         "forms": case_forms, "arith": case_arith, "order": case_order}


def replay(mon, kind, params):
    attach.epoch_invariant(mon)
    CASES[kind](mon, *params)


def run(mon, spec):
    if not dc.self_check():
        raise RuntimeError("day counter self-check failed")
    attach.epoch_invariant(mon)
    rng = random.Random(spec["seed"] * 1000003 + spec["idx"])
    log = []
    for _ in range(spec["n_rt"]):
        j, cls = gen_jde(rng)
        mon.begin("roundtrip", [j, cls])
        case_roundtrip(mon, j, cls, log)
    mon.begin("monotone", [])
    check_monotone(mon, log)
    for _ in range(max(50, spec["n_forms"] // 4)):
        sv = rng.randrange(1 << 30)
        mon.begin("objhistory", [sv])
        case_objhistory(mon, sv)
    for _ in range(spec["n_forms"]):
        p = gen_civil(rng)
        mon.begin("forms", list(p))
        case_forms(mon, *p)
    # every civil day of the reform year and of one other year per shard, in
    # every input form (date and datetime objects included), at 0h and at a
    # time of day that depends on the date
    for yy in (1582, (1583, 1581, 1584, 1600, 1700, 2000, 1, 100, 1500, 4,
                      1900, 2024, 9999, 1000, 400, 2100)[spec["idx"] % 16]):
        if yy == 1582 and spec["idx"] % 4:
            continue
        for m_, d_, _j0, _wd, _doy in dc.walk_year(yy):
            hh = (d_ * 7 + m_) % 24
            for p in ((yy, m_, d_, 0, 0, 0),
                      (yy, m_, d_, hh, (d_ * 13) % 60, 250000 * (m_ % 4))):
                mon.begin("forms", list(p))
                case_forms(mon, *p)
    for _ in range(spec["n_arith"]):
        j, _c = gen_jde(rng)
        r = rng.random()
        if r < 0.3:
            x = rng.randrange(-1000000, 1000001)
        elif r < 0.5:
            x = rng.randrange(-400, 401)
        elif r < 0.8:
            x = rng.uniform(-1e6, 1e6)
        else:
            x = rng.choice((-1, 1)) * 10.0 ** rng.uniform(-6, 3)
        if not (0.0 <= j + x <= 5.4e6 and 0.0 <= j - x <= 5.4e6):
            x = 0.5 if isinstance(x, float) else 1
            if not (1.0 <= j <= 5.4e6 - 1):
                j = 2451545.0
        mon.begin("arith", [j, x])
        case_arith(mon, j, x)
        # ordering pairs
        r = rng.random()
        if r < 0.25:
            jb = j
        elif r < 0.6:
            jb = j + rng.choice((-1, 1)) * 10.0 ** rng.uniform(-6, 0)
        else:
            jb, _c = gen_jde(rng)
        if rng.random() < 0.15:
            # ulp neighbours, in every binade (below JDE 2**19 two floats can
            # be closer than the documented 1e-10 equality tolerance)
            jx = float(rng.randrange(1, 2 ** rng.randrange(3, 23))) + \
                rng.random()
            j2 = jx
            for _k in range(rng.randrange(1, 4)):
                j2 = math.nextafter(j2, rng.choice((0.0, 1e9)))
            mon.begin("order", [jx, j2])
            case_order(mon, jx, j2)
        mon.begin("order", [j, jb])
        case_order(mon, j, jb)
