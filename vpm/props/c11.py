"""C11 - Kepler's equation is solved; two-body relations hold."""
import math
import random

from vpm import attach
from vpm import tol

ID = "C11"
RULE = ("Seeded generation. Kepler: e uniform [0,1) and {0, 1e-12, 0.5, 0.9, "
        "0.95+-1e-12, 0.99, 0.999999}; M uniform [-1e4, 1e4] deg and "
        "multiples of 180/360 +- {0, 1e-12, 1e-9, 1e-6}; the residual, "
        "half-revolution and true-anomaly relations are evaluated by a "
        "post-condition wrapped around the real kepler_equation (rebound in "
        "every pymeeus module), so the calls the library makes itself (Minor "
        "workload) are judged too. Two-body: a log-uniform 0.3..100, omega "
        "0..360 incl. 0/180 +- tiny, triangle distance triples incl. "
        "degenerate ones. Non-trivial = e >= 0.9, M within 1e-6 deg of a "
        "multiple of 180, negative M, |M| > 360, e within 1e-9 of 0.95, "
        "near-collinear triangle; distinct by inputs.")
ASSUMPTIONS = [
    "vis-viva relations compared at relative 2e-5 (the module's two rounded "
    "constants 42.1218/sqrt(2) and 29.7847 differ by 3e-6)",
    "orbit-length continuity at e = 0.95: |L(0.95-1e-12) - L(0.95)| <= "
    "5e-4 L (the property gives no number; the two approximations differ by "
    "1.44e-4 L there)",
    "k = (1+cos i)/2 compared at 1e-12 + 8e-16 (r+delta+R)^2/(4 r delta) "
    "(the property gives no number; this is a few ulps of the cancelling "
    "numerator both formulas share)",
    "node passage: true anomaly compared at 1e-6 deg + dv/dE * 5e-8 deg "
    "(what the property's own tolerance on E allows) + dv/dM * n * 2e-9 day "
    "(resolution of an Epoch near JDE 2.4e6)",
]
EXHAUSTIVE = {"quick": False, "thorough": False}
_state = {}


def anchors():
    from pymeeus import Coordinates as C
    return {"kepler_equation": _state.get("orig_kepler", C.kepler_equation),
            "length_orbit": C.length_orbit,
            "passage_nodes_elliptic": C.passage_nodes_elliptic,
            "passage_nodes_parabolic": C.passage_nodes_parabolic}


POINTS = {
    "kepler.m<0": ("kepler_equation", "m += 2.0 * pi"),
    "kepler.m>pi": ("kepler_equation", "m = 2.0 * pi - m"),
    "length.low-e": ("length_orbit", "hh = (2.0 * a * b) / (a + b)"),
    "length.high-e": ("length_orbit", "length = pi * (3.0 * (a + b)"),
    "nodes.asc": ("passage_nodes_elliptic", "v = 360.0 - omega"),
    "nodes.desc": ("passage_nodes_elliptic", "v = 180.0 - omega"),
}
REQUIRED_POINTS = list(POINTS)
REQUIRED_CLAUSES = ["kepler.residual<=5e-8", "kepler.half-revolution",
                    "kepler.true-anomaly", "visviva.perihelion",
                    "visviva.aphelion", "visviva.product", "length.bounds",
                    "length.continuous@0.95", "phase.k==(1+cos i)/2",
                    "nodes.elliptic.v", "nodes.elliptic.r",
                    "nodes.parabolic"]
REQUIRED_CONTRACTS = ["post:kepler_equation", "post:kepler_equation(internal)"]


def shards(tier, seed):
    mult = 25 if tier == "thorough" else 1
    return [{"name": "s%02d" % i, "idx": i, "n_kep": 9000 * mult,
             "n_other": 5000 * mult, "n_lib": 150 * mult} for i in range(16)]


def mod_err(x, m=360.0):
    x = math.fmod(x, m)
    return min(abs(x), m - abs(x))


def install_kepler_post(mon):
    """Wrap kepler_equation with its post-condition and rebind it wherever
    pymeeus imported it by name."""
    from pymeeus import Coordinates as C
    import pymeeus.Minor  # noqa  (binds kepler_equation by name)
    from pymeeus.Angle import Angle
    if "orig_kepler" in _state:
        _state["mon"] = mon
        return
    orig = C.kepler_equation
    _state["orig_kepler"] = orig
    _state["mon"] = mon
    _state["internal"] = True

    def kepler_equation(eccentricity, mean_anomaly):
        m = _state["mon"]
        snap = mean_anomaly._deg if isinstance(mean_anomaly, Angle) else None
        res = orig(eccentricity, mean_anomaly)
        try:
            m.hit("post:kepler_equation" + ("(internal)"
                                            if _state["internal"] else ""))
            judge_kepler(m, eccentricity, mean_anomaly, snap, res)
        except Exception as e:     # the monitor must not disturb the caller
            m.error("post:kepler_equation", e)
        return res

    kepler_equation.__wrapped__ = orig
    _state["n_rebound"] = attach.rebind(orig, kepler_equation)


def judge_kepler(mon, e, M_angle, snap, res):
    from pymeeus.Angle import Angle
    M = M_angle._deg
    case = {"e": e, "M": M}
    mon.check("kepler.argument-unchanged", snap == M, case)
    ok = (isinstance(res, tuple) and len(res) == 2
          and all(isinstance(x, Angle) for x in res))
    if not mon.check("kepler.returns-two-angles", ok,
                     dict(case, returned=repr(res))):
        return
    E, v = res[0]._deg, res[1]._deg
    resid = mod_err(E - e * math.sin(math.radians(E)) * 180.0 / math.pi - M)
    mon.stat("kepler_residual_deg", resid, case)
    mon.check("kepler.residual<=5e-8", resid <= 5e-8,
              lambda: dict(case, E=E, residual_deg=resid))
    if mod_err(M, 180.0) > 1e-7:
        same = (math.floor(E / 180.0) - math.floor(M / 180.0)) % 2 == 0
        mon.check("kepler.half-revolution", same, lambda: dict(case, E=E))
    er = math.radians(E)
    vt = 2.0 * math.degrees(math.atan2(
        math.sqrt(1.0 + e) * math.sin(er / 2.0),
        math.sqrt(1.0 - e) * math.cos(er / 2.0)))
    verr = mod_err(v - vt)
    mon.stat("true_anomaly_err_deg", verr, case)
    mon.check("kepler.true-anomaly", verr <= 1e-9,
              lambda: dict(case, E=E, v=v, expected_v=vt))


def case_kepler(mon, e, Mdeg):
    from pymeeus.Angle import Angle
    from pymeeus import Coordinates as C
    mon.evals += 1
    ident = ("kep", e, Mdeg)
    if type(e) is int:
        mon.cls("eccentricity-given-as-int", ident, [e, Mdeg])
    if e >= 0.9:
        mon.cls("e>=0.9", ident, [e, Mdeg] if e > 0.9999 else None)
    if mod_err(Mdeg, 180.0) < 1e-6:
        mon.cls("M-within-1e-6-of-multiple-of-180", ident, [e, Mdeg])
    if Mdeg < 0:
        mon.cls("negative-M", ident)
    if abs(Mdeg) > 360:
        mon.cls("|M|>360", ident)
    _state["internal"] = False
    try:
        C.kepler_equation(e, tol.T(Mdeg))    # vpm/tol.py
    except Exception as ex:
        mon.dev("kepler.accepts", {"e": e, "M": Mdeg, "raised": repr(ex)})
    finally:
        _state["internal"] = True


def case_visviva(mon, e, a):
    from pymeeus import Coordinates as C
    mon.evals += 1
    try:
        vp = C.velocity_perihelion(e, a)
        va = C.velocity_aphelion(e, a)
        v1 = C.velocity(a * (1.0 - e), a)
        v2 = C.velocity(a * (1.0 + e), a)
        vc = C.velocity(a, a)
    except Exception as ex:
        mon.dev("visviva.perihelion", {"e": e, "a": a, "raised": repr(ex)})
        return
    if e >= 0.9:
        mon.cls("e>=0.9", ("vv", e, a))
    else:
        mon.cls("visviva", ("vv", e, a), [e, a, vp, va] if a > 90 else None)
    c = {"e": e, "a": a, "v_peri": vp, "v_aph": va, "velocity(q)": v1,
         "velocity(Q)": v2, "v_circ": vc}
    mon.stat("visviva_rel_err", max(abs(v1 / vp - 1), abs(v2 / va - 1),
                                    abs(vp * va / (vc * vc) - 1)), [e, a])
    mon.check("visviva.perihelion", abs(v1 / vp - 1.0) <= 2e-5, c)
    mon.check("visviva.aphelion", abs(v2 / va - 1.0) <= 2e-5, c)
    mon.check("visviva.product", abs(vp * va / (vc * vc) - 1.0) <= 2e-5, c)


def case_length(mon, e, a):
    from pymeeus import Coordinates as C
    mon.evals += 1
    try:
        L = C.length_orbit(e, a)
    except Exception as ex:
        mon.dev("length.bounds", {"e": e, "a": a, "raised": repr(ex)})
        return
    b = a * math.sqrt(1.0 - e * e)
    if abs(e - 0.95) < 1e-9:
        mon.cls("e-within-1e-9-of-0.95", ("len", e, a), [e, a, L])
    else:
        mon.cls("length", ("len", e, a))
    mon.check("length.bounds", 2 * math.pi * b * (1 - 1e-12) <= L
              <= 2 * math.pi * a * (1 + 1e-12),
              {"e": e, "a": a, "length": L, "2*pi*b": 2 * math.pi * b,
               "2*pi*a": 2 * math.pi * a})


def case_length_switch(mon, a):
    from pymeeus import Coordinates as C
    mon.evals += 2
    lo = C.length_orbit(0.95 - 1e-12, a)
    hi = C.length_orbit(0.95, a)
    mon.cls("e-within-1e-9-of-0.95", ("lensw", a), [a, lo, hi])
    mon.stat("length_jump_rel@0.95", abs(lo - hi) / hi, a)
    mon.check("length.continuous@0.95", abs(lo - hi) <= 5e-4 * hi,
              {"a": a, "L(0.95-1e-12)": lo, "L(0.95)": hi})


def case_phase(mon, r, delta, R):
    """r: Sun-planet, delta: Earth-planet, R: Sun-Earth."""
    from pymeeus import Coordinates as C
    mon.evals += 1
    case = {"sun_dist": r, "earth_dist": delta, "sun_earth_dist": R}
    slack = (r + delta - R) / max(r, delta, R)
    degenerate = min(r + delta - R, r + R - delta, delta + R - r) \
        <= 1e-9 * max(r, delta, R)
    if degenerate:
        mon.cls("near-collinear-triangle", ("ph", r, delta, R),
                [r, delta, R])
    else:
        mon.cls("triangle", ("ph", r, delta, R))
    try:
        i = C.phase_angle(r, delta, R)
        k = C.illuminated_fraction(r, delta, R)
    except Exception as ex:
        mon.dev("phase.k==(1+cos i)/2", dict(case, raised=repr(ex)),
                key_phase(r, delta, R, ex))
        return
    want = (1.0 + math.cos(i.rad())) / 2.0
    mon.stat("phase_k_err", abs(k - want), case)
    # both formulas divide a cancelling numerator by r*delta: allow a few
    # ulps of the numerator's terms on top of 1e-12
    tol = 1e-12 + 8e-16 * (r + delta + R) ** 2 / (4.0 * r * delta)
    mon.check("phase.k==(1+cos i)/2", abs(k - want) <= tol,
              dict(case, i=i(), k=k, expected_k=want))
    mon.check("phase.ranges", 0.0 <= i() <= 180.0 and -1e-12 <= k <=
              1 + 1e-12, dict(case, i=i(), k=k))


def key_phase(r, delta, R, ex):
    return None


def case_nodes_elliptic(mon, omega, e, a, jde, ascending):
    from pymeeus import Coordinates as C
    from pymeeus.Angle import Angle
    from pymeeus.Epoch import Epoch
    mon.evals += 1
    t = Epoch(jde)
    w = Angle(omega)
    case = {"omega": omega, "e": e, "a": a, "t": jde, "ascending": ascending}
    try:
        tt, r = C.passage_nodes_elliptic(w, e, a, t, ascending)
    except Exception as ex:
        mon.dev("nodes.elliptic.v", dict(case, raised=repr(ex)))
        return
    mon.cls("node-ascending" if ascending else "node-descending",
            ("ne", omega, e, a, ascending),
            [omega, e, a, ascending, tt.jde() - t.jde(), r]
            if e > 0.9 else None)
    n = 0.9856076686 / a ** 1.5
    M = n * (tt.jde() - t.jde())
    _state["internal"] = False
    try:
        E, v = _state["orig_kepler"](e, Angle(M))
    finally:
        _state["internal"] = True
    target = (-w._deg) if ascending else (180.0 - w._deg)
    verr = mod_err(v._deg - target)
    # error budget: 1e-6 deg + what the property's own 5e-8 deg tolerance on
    # E allows (times dv/dE) + the 2e-9 day resolution of an Epoch near
    # JDE 2.4e6 (times n * dv/dM), both sensitivities taken at the node
    ce = 1.0 - e * math.cos(E.rad())
    dv_dE = math.sqrt(1.0 - e * e) / ce
    tol = 1e-6 + dv_dE * 5e-8 + (dv_dE / ce) * n * 2e-9
    mon.stat("node_true_anomaly_err/tol", verr / tol, case)
    mon.check("nodes.elliptic.v", verr <= tol,
              lambda: dict(case, passage=tt.jde(), M=M, v=v._deg,
                           target_v=target % 360.0, tol=tol))
    rr = a * (1.0 - e * math.cos(E.rad()))
    mon.check("nodes.elliptic.r", abs(r - rr) <= 1e-9 * a + 2e-9 * a * e
              * math.sqrt((1 + e) / (1 - e)),
              lambda: dict(case, r=r, expected_r=rr))
    mon.check("nodes.args-unchanged", w._deg == Angle(omega)._deg
              and t.jde() == Epoch(jde).jde(), case)


def case_nodes_parabolic(mon, omega, q, jde, ascending):
    from pymeeus import Coordinates as C
    from pymeeus.Angle import Angle
    from pymeeus.Epoch import Epoch
    mon.evals += 1
    t = Epoch(jde)
    w = Angle(omega)
    case = {"omega": omega, "q": q, "t": jde, "ascending": ascending}
    try:
        tt, r = C.passage_nodes_parabolic(w, q, t, ascending)
    except Exception as ex:
        mon.dev("nodes.parabolic", dict(case, raised=repr(ex)))
        return
    mon.cls("parabolic-node", ("np", omega, q, ascending))
    v = (-w._deg) if ascending else (180.0 - w._deg)
    s = math.tan(math.radians(v) / 2.0)
    k = 0.01720209895
    dt_want = math.sqrt(2.0) / (3.0 * k) * q ** 1.5 * (s ** 3 + 3.0 * s)
    dt = tt.jde() - t.jde()
    if abs(dt_want) > 2.0e6 or not (0 < tt.jde() < 5.4e6):
        return          # outside any Epoch a user could hold; not judged
    mon.check("nodes.parabolic", abs(dt - dt_want) <= 1e-7 * abs(dt_want)
              + 2e-9 and abs(r - q * (1 + s * s)) <= 1e-12 * r,
              lambda: dict(case, dt=dt, barker_dt=dt_want, r=r,
                           expected_r=q * (1 + s * s)))


def case_library(mon, seedval):
    """Minor-body positions: the library calls kepler_equation itself; the
    post-condition judges those internal calls."""
    from pymeeus.Minor import Minor
    from pymeeus.Angle import Angle
    from pymeeus.Epoch import Epoch
    rng = random.Random(seedval)
    mon.evals += 1
    q = 10 ** rng.uniform(-1, 1.3)
    e = rng.choice((rng.uniform(0, 0.97), 0.0, 0.5, 0.9, 0.97))
    m = Minor(q, e, Angle(rng.uniform(0, 180)), Angle(rng.uniform(0, 360)),
              Angle(rng.uniform(0, 360)), Epoch(rng.uniform(2.40e6, 2.50e6)))
    ep = Epoch(rng.uniform(2.40e6, 2.50e6))
    try:
        m.heliocentric_ecliptical_position(ep)
        m.geocentric_position(ep)
    except Exception as ex:
        mon.refusal("minor-raised:" + type(ex).__name__)
    mon.cls("library-internal-call", ("lib", seedval))


def case_run(mon, a, es, e0, a2s):
    """The same a with a run of eccentricities, then the same e with a run of
    semi-major axes, in one process and back to back: a value kept from the
    previous call and looked up by only one of the two arguments shows on the
    second call of such a run."""
    for k, e in enumerate(es):
        case_visviva(mon, e, a)
        if k % 2:
            case_length(mon, e, a)
    mon.cls("run-of-e-at-one-a", ("run", a, e0))
    for a2 in a2s:
        case_visviva(mon, e0, a2)
        case_length(mon, e0, a2)
    mon.cls("run-of-a-at-one-e", ("run2", a, e0))


CASES = {"kepler": case_kepler, "visviva": case_visviva,
         "length": case_length, "length_switch": case_length_switch,
         "phase": case_phase, "nodes_elliptic": case_nodes_elliptic,
         "nodes_parabolic": case_nodes_parabolic, "library": case_library, "run": case_run}


def replay(mon, kind, params):
    install_kepler_post(mon)
    CASES[kind](mon, *params)


def gen_e(rng):
    r = rng.random()
    if r < 0.15:
        return rng.uniform(0.95, 1.0)
    if r < 0.6:
        return rng.random()
    if r < 0.85:
        # 0 as an int: the eccentricity is documented as 'int, float' and
        # the circle is the one whole number of the domain
        return rng.choice((0.0, 0, 1e-12, 0.5, 0.9, 0.95, 0.95 - 1e-12,
                           0.95 + 1e-12, 0.99, 0.999999, 0.9999))
    return 1.0 - 10.0 ** rng.uniform(-6, -1)


def gen_M(rng):
    r = rng.random()
    if r < 0.08:
        # round values: whole degrees and binary fractions of a turn (a
        # bisection started at a quarter turn lands on them exactly)
        return rng.choice((11.25 * rng.randrange(-64, 65),
                           float(rng.randrange(-720, 721)),
                           360.0 / 2 ** rng.randrange(1, 12)
                           * rng.choice((1, -1, 3, 5))))
    if r < 0.2:
        # the weeks around perihelion, where iterations on very eccentric
        # orbits are slowest to settle
        return rng.uniform(-30.0, 30.0) + 360.0 * rng.choice((0, 0, 1, -3))
    if r < 0.55:
        return rng.uniform(-1e4, 1e4)
    if r < 0.7:
        return rng.uniform(-360.0, 360.0)
    k = rng.randrange(-55, 56)
    return 180.0 * k + rng.choice((-1, 1)) * rng.choice((0.0, 1e-12, 1e-9,
                                                         1e-6, 1e-3))


def run(mon, spec):
    install_kepler_post(mon)
    rng = random.Random(spec["seed"] * 1000003 + spec["idx"])
    for _ in range(spec["n_kep"]):
        p = [gen_e(rng), gen_M(rng)]
        mon.begin("kepler", p)
        case_kepler(mon, *p)
    for _ in range(spec["n_other"]):
        e = float(min(gen_e(rng), 0.999999))   # these take floats only
        a = 10.0 ** rng.uniform(math.log10(0.3), 2.0)
        r = rng.random()
        if r < 0.2:
            p = ["visviva", [e, a]]
        elif r < 0.4:
            p = ["length", [e, a]]
        elif r < 0.45:
            p = ["length_switch", [a]]
        elif r < 0.65:
            # triangle from two sides and the included angle
            R = rng.choice((1.0, rng.uniform(0.98, 1.02)))
            rr = 10.0 ** rng.uniform(-0.5, 1.6)
            ang = rng.choice((0.0, math.pi, 1e-8, math.pi - 1e-8,
                              rng.uniform(0, math.pi)))
            d = math.sqrt(max(rr * rr + R * R - 2 * rr * R * math.cos(ang),
                              0.0))
            if rng.random() < 0.2:
                d = abs(rr - R) * (1 + rng.choice((0, 1e-12, 1e-15)))
            if rng.random() < 0.1:
                d = (rr + R) * (1 - rng.choice((0, 1e-12, 1e-15)))
            if d <= 0.0:
                d = rr + R
            # keep the triple feasible in exact arithmetic (the roundings
            # above may have left it infeasible by an ulp)
            from fractions import Fraction as F
            lo = float(abs(F(rr) - F(R)))
            while F(lo) < abs(F(rr) - F(R)):
                lo = math.nextafter(lo, math.inf)
            hi = float(F(rr) + F(R))
            while F(hi) > F(rr) + F(R):
                hi = math.nextafter(hi, 0.0)
            d = min(max(d, lo), hi)
            if d == 0.0:
                d = hi
            p = ["phase", [rr, d, R]]
        elif r < 0.9:
            om = rng.choice((0.0, 180.0, 1e-9, 180.0 - 1e-9, 359.999999,
                             rng.uniform(0, 360), rng.uniform(0, 360)))
            p = ["nodes_elliptic", [om, min(e, 0.99), a,
                                    rng.uniform(2.3e6, 2.6e6),
                                    rng.random() < 0.5]]
        else:
            om = rng.uniform(0, 360)
            asc = rng.random() < 0.5
            # keep the node's true anomaly away from 180 (infinite time)
            v = (-om) % 360.0 if asc else (180.0 - om) % 360.0
            if abs(v - 180.0) < 20.0:
                om = (om + 90.0) % 360.0
            p = ["nodes_parabolic", [om, 10.0 ** rng.uniform(-1, 1.3),
                                     rng.uniform(2.3e6, 2.6e6), asc]]
        mon.begin(p[0], p[1])
        CASES[p[0]](mon, *p[1])
    # consecutive calls that share one argument (see case_run)
    for _ in range(max(20, spec["n_other"] // 50)):
        a = rng.choice((1.0, 0.3, 17.8, 10.0 ** rng.uniform(-0.5, 2.0)))
        e0 = float(min(gen_e(rng), 0.999999))
        es = [e0 if k % 3 == 2 else float(min(gen_e(rng), 0.999999))
              for k in range(6)]
        a2s = [10.0 ** rng.uniform(-0.5, 2.0) for k in range(4)]
        mon.begin("run", [a, es, e0, a2s])
        case_run(mon, a, es, e0, a2s)
    for _ in range(spec["n_lib"]):
        sv = rng.randrange(1 << 30)
        mon.begin("library", [sv])
        case_library(mon, sv)
