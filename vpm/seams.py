"""Calendar seams as a workload for the properties that consume Epochs.

Every `Epoch(<number>)`, `epoch + days` and `epoch -= days` inside the library
goes JDE -> calendar date -> JDE, so the places where the calendar code
branches (the 1582 reform, January/February of century years, years <= 0,
-4712) are places where a position, an event instant or a rise time can be
evaluated at a wrong instant while every single call still looks
self-consistent.  The monitors therefore (a) sample these instants and
(b) build the Epochs of their own reference computations with raw_epoch(),
which stores the JDE without going through the calendar."""
from vpm.oracles import daycount as dc


def raw_epoch(jde):
    """An Epoch for the instant `jde` that does not depend on the calendar
    round trip being right.  The public constructor is used whenever it
    keeps the instant (to 1e-9 day: it re-derives the JDE from date fields,
    which costs an ulp or two); only when it does not - the calendar code is
    wrong at this instant - the JDE is stored directly, so that a reference
    computation is still made at the instant meant.  (Always storing the
    JDE directly would be wrong for a library that legitimately keeps
    derived fields in the object.)"""
    from pymeeus.Epoch import Epoch
    e = Epoch(float(jde))
    if abs(e.jde() - jde) <= 1e-9:
        return e
    e = Epoch(2451545.0)
    e._jde = float(jde)
    return e


def seam_days():
    """(label, JDN at 0h - 0.5 style JDE of the civil day's start) for the
    civil days around which the calendar code branches."""
    out = []
    for y, m, d, lab in ((1582, 10, 4, "last Julian day"),
                         (1582, 10, 15, "first Gregorian day"),
                         (1582, 3, 5, "1582 before the reform"),
                         (1582, 9, 30, "1582 before the reform"),
                         (1582, 11, 1, "1582 after the reform"),
                         (1582, 12, 31, "end of the short year"),
                         (1583, 1, 1, "first full Gregorian year"),
                         (1583, 2, 28, "first full Gregorian year"),
                         (0, 12, 31, "year 0 / 1"), (1, 1, 1, "year 0 / 1"),
                         (-1, 12, 31, "year -1 / 0"), (0, 1, 1, "year -1 / 0"),
                         (0, 2, 29, "leap day of year 0"),
                         (-4712, 1, 1, "JD 0"),
                         (100, 2, 29, "Julian century leap day"),
                         (1500, 2, 29, "Julian century leap day")):
        out.append((lab, dc.jdn(y, m, d) - 0.5))
    for y in (1700, 1800, 1900, 2100, 2200, 1600, 2000, 2400, 3000, 3900):
        for m, d in ((1, 1), (1, 31), (2, 28), (3, 1), (12, 31)):
            out.append(("century year %d" % y, dc.jdn(y, m, d) - 0.5))
        if y % 400 == 0:
            out.append(("century leap day %d" % y, dc.jdn(y, 2, 29) - 0.5))
    return out


def seam_jdes(rng, n):
    """n JDEs at, just before, just after and a few hours around seam days."""
    days = seam_days()
    out = []
    for _ in range(n):
        lab, j0 = rng.choice(days)
        off = rng.choice((0.0, 0.5, 0.125, 0.25, 0.75, 0.999, 1.0, -1e-3,
                          1e-3, -0.25, 1.5, rng.uniform(-1.0, 2.0),
                          rng.uniform(0.0, 0.2)))
        out.append((lab, j0 + off))
    return out


def just_after_boundaries(rng, widths=(0.003, 0.15)):
    """Instants a short way after the start (0h) and the middle (12h) of the
    principal seam days: a computation that steps back by a light-time, or
    by a fraction of a day, lands on the other side of the boundary."""
    out = []
    for y, m, d in ((1582, 10, 15), (1582, 10, 4), (1583, 1, 1),
                    (1900, 1, 1), (1900, 3, 1), (2100, 3, 1), (1, 1, 1),
                    (0, 1, 1), (1700, 3, 1)):
        j0 = dc.jdn(y, m, d) - 0.5
        for b in (j0, j0 + 0.5, j0 + 1.0):
            for w in widths:
                out.append(("after %d-%d-%d" % (y, m, d),
                            b + rng.uniform(0.0, w)))
    return out
