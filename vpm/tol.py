"""Angles that carry a non-default comparison tolerance.

`Angle.set_tolerance()` (and the copy constructor, which inherits it) changes
how ==, != compare; it is not part of the value.  Geometry, Kepler's equation,
precession, printing ... must not depend on it.  T(v) returns an Angle holding
v; every other one carries such a tolerance, so that a workload built on T()
exercises the functions with arguments whose comparisons behave differently
from those of a freshly built Angle."""
_N = {"n": 0}


def T(v):
    from pymeeus.Angle import Angle
    a = Angle(v)
    _N["n"] += 1
    k = _N["n"] % 6
    if k == 1:
        a.set_tolerance(1e-3)
    elif k == 3:
        a.set_tolerance(1e-2)
        a = Angle(a)
    elif k == 5:
        a.set_tolerance(0.0)
    return a
