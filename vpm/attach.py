"""Attaching monitors to the real pymeeus callables from outside the
repository: icontract class invariants (record-and-return-True style) and a
plain wrapper that rebinds a module-level function everywhere it was imported
by name."""
import math
import sys

from vpm import env


def _icontract():
    env.ensure_deps()
    import icontract
    return icontract


_done = {}


def angle_invariant(mon):
    """Class invariant on pymeeus.Angle.Angle: after every public method the
    stored value is a finite float strictly inside (-360, 360).  Deviations
    are recorded, never raised."""
    ic = _icontract()
    from pymeeus.Angle import Angle
    state = _done.setdefault("angle", {"mon": None})
    state["mon"] = mon
    if state.get("attached"):
        return Angle

    def angle_value_in_open_range(self):
        m = state["mon"]
        m.hit("invariant:Angle(-360<deg<360)")
        v = self._deg
        ok = isinstance(v, float) and math.isfinite(v) and -360.0 < v < 360.0
        if not ok:
            m.check("invariant.Angle-range", False,
                    {"_deg": repr(v), "during": m.cur}, state.get("key"))
        else:
            m.ok("invariant.Angle-range")
        return True

    ic.invariant(angle_value_in_open_range)(Angle)
    state["attached"] = True
    return Angle


def epoch_invariant(mon):
    """Class invariant on pymeeus.Epoch.Epoch: the stored JDE is a finite
    real number after every public method."""
    ic = _icontract()
    from pymeeus.Epoch import Epoch
    state = _done.setdefault("epoch", {"mon": None})
    state["mon"] = mon
    if state.get("attached"):
        return Epoch

    def epoch_jde_is_finite_real(self):
        m = state["mon"]
        m.hit("invariant:Epoch(jde finite real)")
        v = self._jde
        ok = (isinstance(v, (int, float)) and not isinstance(v, bool)
              and math.isfinite(v))
        if not ok:
            m.check("invariant.Epoch-jde", False,
                    {"_jde": repr(v), "during": m.cur})
        else:
            m.ok("invariant.Epoch-jde")
        return True

    ic.invariant(epoch_jde_is_finite_real)(Epoch)
    state["attached"] = True
    return Epoch


def rebind(func, wrapper):
    """Replace module-level function `func` by `wrapper` in every loaded
    pymeeus module whose attribute is that very object.  Returns the number of
    bindings replaced."""
    n = 0
    for name, mod in list(sys.modules.items()):
        if not name.startswith("pymeeus") or mod is None:
            continue
        for attr, val in list(vars(mod).items()):
            if val is func:
                setattr(mod, attr, wrapper)
                n += 1
    return n
