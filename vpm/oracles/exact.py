"""Exact-arithmetic helpers (fractions / decimal) for the Angle and numeric
oracles."""
from decimal import Decimal, localcontext
from fractions import Fraction

PI = Fraction("3.14159265358979323846264338327950288419716939937510582097494")
F360 = Fraction(360)


def fr(x):
    """Exact rational value of an int or float."""
    return Fraction(x)


def red360(r):
    """sign(r) * (|r| mod 360), exactly."""
    a = abs(r) % F360
    return a if r >= 0 else -a


def cong_err(value, exact):
    """Distance (as a float, degrees) between float `value` and rational
    `exact` modulo 360."""
    d = (Fraction(value) - exact) % F360
    if d > 180:
        d = F360 - d
    return float(d)


def real_pow(a, b):
    """a ** b as a Fraction-ish (Decimal-backed) real, or None when the real
    power does not exist / is not finite.  a, b floats or ints."""
    with localcontext() as ctx:
        # (a context of its own: some shards run the library under a hostile
        # process-wide decimal context)
        ctx.prec = 60
        return _real_pow(a, b)


def _real_pow(a, b):
    try:
        if a == 0:
            if b > 0:
                return Fraction(0)
            return None if b < 0 else Fraction(1)
        bi = int(b)
        if bi == b and abs(bi) <= 64:
            return Fraction(a) ** bi
        if a < 0:
            if bi != b:
                return None
            mag = (Decimal(-a).ln() * Decimal(b)).exp()
            r = Fraction(mag)
            return r if bi % 2 == 0 else -r
        return Fraction((Decimal(a).ln() * Decimal(b)).exp())
    except Exception:
        return None


def sgn(x):
    return (x > 0) - (x < 0)
