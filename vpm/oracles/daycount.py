"""Independent civil-calendar day counter.

Knows only: month lengths, the Julian leap rule (astronomical year numbering,
y % 4 == 0) through 4 Oct 1582, the jump to 15 Oct 1582, the Gregorian rule
after it, and that -4712-01-01 0h is JD -0.5.  No Meeus formula is used.
"""
import datetime

ML = (31, 28, 31, 30, 31, 30, 31, 31, 30, 31, 30, 31)
Y0 = -4712
JD0H_START = -0.5          # JD of -4712-01-01 at 0h


def is_leap(y):
    if y < 1582:
        return y % 4 == 0
    return (y % 4 == 0 and y % 100 != 0) or y % 400 == 0


def month_days(y, m):
    """List of the day numbers civil month (y, m) has."""
    n = ML[m - 1] + (1 if (m == 2 and is_leap(y)) else 0)
    if y == 1582 and m == 10:
        return [1, 2, 3, 4] + list(range(15, 32))
    return list(range(1, n + 1))


def month_len(y, m):
    """Largest day number of the month."""
    return ML[m - 1] + (1 if (m == 2 and is_leap(y)) else 0)


def year_len(y):
    if y == 1582:
        return 355
    return 366 if is_leap(y) else 365


_starts = {}


def _build(upto):
    if not _starts:
        _starts[Y0] = 0
    top = max(_starts)
    n = _starts[top]
    while top < upto:
        n += year_len(top)
        top += 1
        _starts[top] = n


def year_start_n(y):
    """Days from -4712-01-01 to y-01-01."""
    if y not in _starts:
        _build(y)
    return _starts[y]


def jd0h(y, m, d):
    """JD at 0h of civil date (y, m, d) by counting days."""
    n = year_start_n(y)
    for mm in range(1, m):
        n += len(month_days(y, mm))
    n += month_days(y, m).index(d)
    return JD0H_START + n


def walk_year(y):
    """Yield (m, d, jd0h, weekday, doy) for every civil day of year y.
    weekday: 0 = Sunday.  doy counts civil days that exist (so 15 Oct 1582 is
    the day after 4 Oct)."""
    n = year_start_n(y)
    doy = 0
    for m in range(1, 13):
        for d in month_days(y, m):
            doy += 1
            jdn = n  # JDN at noon = JD0H_START + n + 0.5 = n
            yield m, d, JD0H_START + n, (jdn + 1) % 7, doy
            n += 1


def from_n(n):
    """Civil date of day index n (days since -4712-01-01)."""
    # find the year by stepping (callers use it sparingly)
    lo, hi = Y0, 12000
    _build(hi)
    while lo < hi:
        mid = (lo + hi + 1) // 2
        if _starts[mid] <= n:
            lo = mid
        else:
            hi = mid - 1
    y = lo
    r = n - _starts[y]
    for m in range(1, 13):
        md = month_days(y, m)
        if r < len(md):
            return y, m, md[r]
        r -= len(md)
    raise AssertionError("day index outside year")


def from_jdn(jdn):
    """Civil date whose noon is Julian Day Number jdn (integer)."""
    return from_n(jdn)   # JD at noon of day n is -0.5 + n + 0.5 = n


def jdn(y, m, d):
    return int(jd0h(y, m, d) + 0.5)


def self_check():
    """Anchors that do not come from the library under test."""
    ok = (jd0h(-4712, 1, 1) + 0.5 == 0.0
          and jd0h(1858, 11, 17) == 2400000.5
          and jd0h(2000, 1, 1) + 0.5 == 2451545.0
          and jd0h(1582, 10, 15) - jd0h(1582, 10, 4) == 1.0)
    # proleptic-free part of datetime: after the reform
    base = datetime.date(1582, 10, 15).toordinal() - jd0h(1582, 10, 15)
    for (y, m, d) in ((1583, 1, 1), (1600, 2, 29), (1700, 3, 1), (1900, 3, 1),
                      (2000, 2, 29), (2024, 12, 31), (5999, 7, 4)):
        ok = ok and datetime.date(y, m, d).toordinal() - jd0h(y, m, d) == base
        wd = (datetime.date(y, m, d).weekday() + 1) % 7
        ok = ok and wd == (jdn(y, m, d) + 1) % 7
        ok = ok and from_jdn(jdn(y, m, d)) == (y, m, d)
    return bool(ok)
