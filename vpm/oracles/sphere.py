"""Plain-math spherical geometry on unit vectors (independent of pymeeus)."""
import math


def vec(lon_deg, lat_deg):
    lo, la = math.radians(lon_deg), math.radians(lat_deg)
    c = math.cos(la)
    return (c * math.cos(lo), c * math.sin(lo), math.sin(la))


def lonlat(v):
    x, y, z = v
    r = math.sqrt(x * x + y * y + z * z)
    return math.degrees(math.atan2(y, x)) % 360.0, \
        math.degrees(math.asin(max(-1.0, min(1.0, z / r))))


def dot(a, b):
    return a[0] * b[0] + a[1] * b[1] + a[2] * b[2]


def cross(a, b):
    return (a[1] * b[2] - a[2] * b[1], a[2] * b[0] - a[0] * b[2],
            a[0] * b[1] - a[1] * b[0])


def norm(a):
    return math.sqrt(dot(a, a))


def sep(a, b):
    """Angle between two vectors, degrees, accurate at 0 and 180."""
    return math.degrees(math.atan2(norm(cross(a, b)), dot(a, b)))


def sep_ll(lon1, lat1, lon2, lat2):
    return sep(vec(lon1, lat1), vec(lon2, lat2))


def rot_x(v, ang_deg):
    """Rotate vector about the x axis by ang (degrees), right-handed."""
    c, s = math.cos(math.radians(ang_deg)), math.sin(math.radians(ang_deg))
    return (v[0], c * v[1] - s * v[2], s * v[1] + c * v[2])


def rot_z(v, ang_deg):
    c, s = math.cos(math.radians(ang_deg)), math.sin(math.radians(ang_deg))
    return (c * v[0] - s * v[1], s * v[0] + c * v[1], v[2])


def rot_y(v, ang_deg):
    c, s = math.cos(math.radians(ang_deg)), math.sin(math.radians(ang_deg))
    return (c * v[0] + s * v[2], v[1], -s * v[0] + c * v[2])


def position_angle(lon1, lat1, lon2, lat2):
    """Position angle of body 1 as seen from body 2, measured from north
    through east (increasing longitude), degrees in [0, 360)."""
    p2 = vec(lon2, lat2)
    p1 = vec(lon1, lat1)
    lo, la = math.radians(lon2), math.radians(lat2)
    east = (-math.sin(lo), math.cos(lo), 0.0)
    north = (-math.sin(la) * math.cos(lo), -math.sin(la) * math.sin(lo),
             math.cos(la))
    d = (p1[0] - p2[0], p1[1] - p2[1], p1[2] - p2[2])
    return math.degrees(math.atan2(dot(d, east), dot(d, north))) % 360.0


def self_check():
    ok = abs(sep_ll(0, 0, 90, 0) - 90.0) < 1e-12
    ok = ok and abs(sep_ll(10, 90, 200, 90)) < 1e-12
    ok = ok and abs(sep_ll(0, 0, 180, 0) - 180.0) < 1e-12
    ok = ok and abs(sep_ll(0, 0, 1e-7, 0) - 1e-7) < 1e-20
    ok = ok and abs(position_angle(10, 1, 10, 0) - 0.0) < 1e-9
    ok = ok and abs(position_angle(11, 0, 10, 0) - 90.0) < 1e-9
    lo, la = lonlat(rot_x(vec(0, 90), 23.0))
    ok = ok and abs(la - 67.0) < 1e-12
    return ok
