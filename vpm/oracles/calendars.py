"""Reference models for C19: tabular Computus (epact definition), arithmetic
Hebrew calendar (molad + dehiyyot), tabular Islamic calendar.  All expressed
in Julian Day Numbers and turned into civil dates by the day counter."""
from vpm.oracles import daycount as dc


# ------------------------------------------------------------------ Computus
def _sunday_after(jdn):
    n = jdn + 1
    while (n + 1) % 7 != 0:      # weekday = (JDN + 1) mod 7, 0 = Sunday
        n += 1
    return n


def easter(y):
    """(month, day) of Easter in the calendar in force (Julian through 1582,
    Gregorian from 1583), from the epact of the year."""
    g = y % 19
    if y <= 1582:
        shifted_epact = (14 + 11 * g) % 30
        pfm = _julian_jdn(y, 4, 19) - shifted_epact
        n = _sunday_after(pfm)
        return _julian_from_jdn(n)[1:]
    century = y // 100 + 1
    shifted_epact = (14 + 11 * g - (3 * century) // 4
                     + (5 + 8 * century) // 25) % 30
    if shifted_epact == 0 or (shifted_epact == 1 and g > 10):
        shifted_epact += 1
    pfm = dc.jdn(y, 4, 19) - shifted_epact
    n = _sunday_after(pfm)
    yy, m, d = dc.from_jdn(n)
    assert yy == y
    return m, d


def _julian_jdn(y, m, d):
    """Only used for y <= 1582 before October: the civil calendar is Julian."""
    assert (y, m, d) < (1582, 10, 5)
    return dc.jdn(y, m, d)


def _julian_from_jdn(n):
    assert n <= dc.jdn(1582, 10, 4)
    return dc.from_jdn(n)


# -------------------------------------------------------------------- Hebrew
HEBREW_EPOCH_JDN = 347998      # 1 Tishri AM 1 = Monday 7 Oct -3760 (Julian)


def _elapsed(hy):
    months = (235 * hy - 234) // 19
    parts = 12084 + 13753 * months
    day = 29 * months + parts // 25920
    if (3 * (day + 1)) % 7 < 3:
        day += 1
    return day


def _delay(hy):
    ny0, ny1, ny2 = _elapsed(hy - 1), _elapsed(hy), _elapsed(hy + 1)
    if ny2 - ny1 == 356:
        return 2
    if ny1 - ny0 == 382:
        return 1
    return 0


def rosh_hashanah_jdn(hy):
    return HEBREW_EPOCH_JDN + _elapsed(hy) + _delay(hy)


def pesach(y):
    """(month, day), in the civil calendar in force, of 15 Nisan of the Hebrew
    year that contains the spring of civil year y (A.M. y + 3760)."""
    n = rosh_hashanah_jdn(y + 3761) - 163
    yy, m, d = dc.from_jdn(n)
    return yy, m, d, n


# ------------------------------------------------------------------- Islamic
ISLAMIC_EPOCH_JDN = 1948440    # 1 Muharram AH 1 = Friday 16 July 622 (Julian)
LEAP_AH = frozenset((2, 5, 7, 10, 13, 16, 18, 21, 24, 26, 29))


def islamic_leap(h):
    return (h % 30) in LEAP_AH


def islamic_month_len(h, m):
    if m == 12:
        return 30 if islamic_leap(h) else 29
    return 30 if m % 2 == 1 else 29


def islamic_year_start(h):
    """JDN of 1 Muharram of year h, by summing whole cycles and years."""
    cycles, r = divmod(h - 1, 30)
    n = ISLAMIC_EPOCH_JDN + cycles * 10631
    for yy in range(1, r + 1):
        n += 355 if yy in LEAP_AH else 354
    return n


def islamic_jdn(h, m, d):
    n = islamic_year_start(h)
    for mm in range(1, m):
        n += islamic_month_len(h, mm)
    return n + d - 1


def islamic_from_jdn(n):
    h = (n - ISLAMIC_EPOCH_JDN) // 355 + 1
    while islamic_year_start(h + 1) <= n:
        h += 1
    r = n - islamic_year_start(h)
    for m in range(1, 13):
        ln = islamic_month_len(h, m)
        if r < ln:
            return h, m, r + 1
        r -= ln
    raise AssertionError


def self_check():
    ok = True
    # Hebrew: known new years and the -163 identity on a few years
    ok = ok and dc.from_jdn(rosh_hashanah_jdn(5751)) == (1990, 9, 20)
    ok = ok and dc.from_jdn(rosh_hashanah_jdn(5761)) == (2000, 9, 30)
    ok = ok and dc.from_jdn(rosh_hashanah_jdn(5784)) == (2023, 9, 16)
    ok = ok and pesach(1990)[:3] == (1990, 4, 10)
    ok = ok and pesach(2024)[:3] == (2024, 4, 23)
    for hy in (1, 100, 3761, 5000, 5784, 6760):
        ln = rosh_hashanah_jdn(hy + 1) - rosh_hashanah_jdn(hy)
        ok = ok and ln in (353, 354, 355, 383, 384, 385)
        ok = ok and (rosh_hashanah_jdn(hy) + 1) % 7 in (1, 2, 4, 6)
    # Islamic: Meeus' two examples, epoch, cycle length
    ok = ok and dc.from_jdn(islamic_jdn(1421, 1, 1)) == (2000, 4, 6)
    ok = ok and islamic_from_jdn(dc.jdn(1991, 8, 13)) == (1412, 2, 2)
    ok = ok and dc.from_jdn(ISLAMIC_EPOCH_JDN) == (622, 7, 16)
    ok = ok and islamic_year_start(31) - islamic_year_start(1) == 10631
    ok = ok and islamic_from_jdn(islamic_jdn(1445, 12, 29)) == (1445, 12, 29)
    # Computus: dates from the literature
    ok = ok and easter(1991) == (3, 31) and easter(1818) == (3, 22)
    ok = ok and easter(1943) == (4, 25) and easter(2000) == (4, 23)
    ok = ok and easter(2038) == (4, 25) and easter(2285) == (3, 22)
    ok = ok and easter(179) == (4, 12) and easter(711) == (4, 12)
    ok = ok and easter(1243) == (4, 12)
    return bool(ok)
