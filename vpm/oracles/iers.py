"""IERS leap-second insertions (the civil day at whose end a positive leap
second was inserted), 1972 .. 2016.  27 entries."""
INSERTIONS = [
    (1972, 6, 30), (1972, 12, 31), (1973, 12, 31), (1974, 12, 31),
    (1975, 12, 31), (1976, 12, 31), (1977, 12, 31), (1978, 12, 31),
    (1979, 12, 31), (1981, 6, 30), (1982, 6, 30), (1983, 6, 30),
    (1985, 6, 30), (1987, 12, 31), (1989, 12, 31), (1990, 12, 31),
    (1992, 6, 30), (1993, 6, 30), (1994, 6, 30), (1995, 12, 31),
    (1997, 6, 30), (1998, 12, 31), (2005, 12, 31), (2008, 12, 31),
    (2012, 6, 30), (2015, 6, 30), (2016, 12, 31),
]
assert len(INSERTIONS) == 27


def count_before(y, m, d):
    """Leap seconds inserted strictly before civil date (y, m, d)."""
    return sum(1 for t in INSERTIONS if t < (y, m, d))


def tt_minus_utc(y, m, d):
    """TT - UTC in seconds on civil date (y, m, d); 0 before 1972."""
    if (y, m, d) < (1972, 1, 1):
        return 0.0
    return 32.184 + 10.0 + count_before(y, m, d)
