"""Independent two-body propagator for the minor-body clause of C09.

Elliptic orbits with e < 0.98 use Kepler's equation (safeguarded Newton on
the reduced mean anomaly); everything from e = 0.98 up to the parabola uses
the universal-variable formulation with Stumpff functions (series for small
arguments), solved by a safeguarded Newton iteration on a monotonic function.
Positions are heliocentric, ecliptic J2000 -> equatorial J2000."""
import math

K = 0.01720209895            # Gauss' constant, AU^1.5 / day
EPS_J2000 = math.degrees(math.asin(0.397777156))


def _stumpff(z):
    if abs(z) < 1e-2:
        c2 = 1 / 2 - z / 24 + z * z / 720 - z ** 3 / 40320 + z ** 4 / 3628800
        c3 = 1 / 6 - z / 120 + z * z / 5040 - z ** 3 / 362880 \
            + z ** 4 / 39916800
        return c2, c3
    if z > 0:
        s = math.sqrt(z)
        return (1 - math.cos(s)) / z, (s - math.sin(s)) / (s * z)
    s = math.sqrt(-z)
    return (math.cosh(s) - 1) / (-z), (math.sinh(s) - s) / (s * -z)


def perifocal(q, e, dt):
    """(x, y) in the orbital plane, x towards perihelion, dt days from
    perihelion."""
    if e < 0.98:
        a = q / (1.0 - e)
        n = K / a ** 1.5
        M = math.remainder(n * dt, 2 * math.pi)
        E = M if e < 0.8 else math.copysign(math.pi, M) if M != 0 else 0.0
        lo, hi = -math.pi, math.pi
        for _ in range(200):
            f = E - e * math.sin(E) - M
            if f > 0:
                hi = E
            else:
                lo = E
            d = 1 - e * math.cos(E)
            En = E - f / d
            if not (lo < En < hi):
                En = 0.5 * (lo + hi)
            if abs(En - E) < 1e-15:
                E = En
                break
            E = En
        return a * (math.cos(E) - e), a * math.sqrt(1 - e * e) * math.sin(E)
    # universal variables from perihelion: r0 = q, r0.v0 = 0
    alpha = (1.0 - e) / q
    mu = K * K
    target = math.sqrt(mu) * dt

    def F(chi):
        z = alpha * chi * chi
        c2, c3 = _stumpff(z)
        return chi ** 3 * c3 + q * chi * (1 - z * c3), \
            chi * chi * c2 + q * (1 - z * c2)

    if dt == 0.0:
        return q, 0.0
    sgn = 1.0 if target > 0 else -1.0
    lo, hi = 0.0, sgn * 1.0
    while (F(hi)[0] - target) * sgn < 0:
        hi *= 2.0
        if abs(hi) > 1e12:
            raise ArithmeticError("universal Kepler: no bracket")
    chi = 0.5 * (lo + hi)
    for _ in range(300):
        f, df = F(chi)
        f -= target
        if f * sgn > 0:
            hi = chi
        else:
            lo = chi
        nxt = chi - f / df
        if not (min(lo, hi) < nxt < max(lo, hi)):
            nxt = 0.5 * (lo + hi)
        if abs(nxt - chi) <= 1e-15 * max(1.0, abs(chi)):
            chi = nxt
            break
        chi = nxt
    z = alpha * chi * chi
    c2, c3 = _stumpff(z)
    fcoef = 1 - chi * chi / q * c2
    gcoef = dt - chi ** 3 / math.sqrt(mu) * c3
    vp = math.sqrt(mu * (1 + e) / q)
    return fcoef * q, gcoef * vp


def position_equatorial_j2000(q, e, inc, node, argp, dt):
    """Heliocentric equatorial J2000 rectangular coordinates (AU); angles in
    degrees, dt in days from perihelion."""
    x, y = perifocal(q, e, dt)
    w, i, om = (math.radians(v) for v in (argp, inc, node))
    cw, sw, ci, si = math.cos(w), math.sin(w), math.cos(i), math.sin(i)
    co, so = math.cos(om), math.sin(om)
    # perifocal -> ecliptic
    px = (co * cw - so * sw * ci, so * cw + co * sw * ci, sw * si)
    py = (-co * sw - so * cw * ci, -so * sw + co * cw * ci, cw * si)
    xe = tuple(x * a + y * b for a, b in zip(px, py))
    se, ce = 0.397777156, 0.917482062
    return (xe[0], xe[1] * ce - xe[2] * se, xe[1] * se + xe[2] * ce), xe


def self_check():
    ok = True
    # circular orbit: quarter period
    a = 1.0
    P = 2 * math.pi / K
    x, y = perifocal(1.0, 0.0, P / 4)
    ok = ok and abs(x) < 1e-12 and abs(y - 1.0) < 1e-12
    # parabola against Barker's closed form
    q, dt = 0.7, 33.0
    W = 3 * K / math.sqrt(2) * dt / q ** 1.5
    Y = (W / 2 + math.sqrt(W * W / 4 + 1)) ** (1 / 3.0)
    s = Y - 1 / Y
    xb, yb = q * (1 - s * s), 2 * q * s
    x, y = perifocal(q, 1.0, dt)
    ok = ok and abs(x - xb) < 1e-12 and abs(y - yb) < 1e-12
    # continuity across the switch of formulation and towards the parabola
    x1, y1 = perifocal(0.5, 0.98 - 1e-12, 40.0)
    x2, y2 = perifocal(0.5, 0.98, 40.0)
    ok = ok and abs(x1 - x2) < 1e-9 and abs(y1 - y2) < 1e-9
    x1, y1 = perifocal(0.5, 1.0 - 1e-12, 40.0)
    x2, y2 = perifocal(0.5, 1.0, 40.0)
    ok = ok and abs(x1 - x2) < 1e-9 and abs(y1 - y2) < 1e-9
    # elliptic branch vs universal branch on the same orbit (e = 0.9)
    xe, ye = perifocal(1.0, 0.9, 500.0)
    alpha_save = None
    return bool(ok)


def elements_from_state(r_eq, v_eq):
    """(q, e, inc, node, argp, dt_since_perihelion) of the heliocentric
    two-body orbit through the equatorial-J2000 state (AU, AU/day); angles in
    degrees.  Elliptic orbits only (returns None otherwise or when the
    orientation is ill-defined)."""
    se, ce = 0.397777156, 0.917482062

    def to_ecl(v):
        return (v[0], v[1] * ce + v[2] * se, -v[1] * se + v[2] * ce)
    r, v = to_ecl(r_eq), to_ecl(v_eq)
    mu = K * K

    def cross(a, b):
        return (a[1] * b[2] - a[2] * b[1], a[2] * b[0] - a[0] * b[2],
                a[0] * b[1] - a[1] * b[0])

    def dot(a, b):
        return a[0] * b[0] + a[1] * b[1] + a[2] * b[2]
    rn = math.sqrt(dot(r, r))
    h = cross(r, v)
    hn = math.sqrt(dot(h, h))
    n = (-h[1], h[0], 0.0)
    nn = math.sqrt(dot(n, n))
    vxh = cross(v, h)
    ev = tuple(vxh[k] / mu - r[k] / rn for k in range(3))
    e = math.sqrt(dot(ev, ev))
    if not (1e-3 < e < 0.97) or nn < 1e-6 * hn or hn == 0.0:
        return None
    inc = math.degrees(math.acos(max(-1.0, min(1.0, h[2] / hn))))
    node = math.degrees(math.atan2(n[1], n[0])) % 360.0
    cw = dot(n, ev) / (nn * e)
    argp = math.degrees(math.acos(max(-1.0, min(1.0, cw))))
    if ev[2] < 0.0:
        argp = 360.0 - argp
    cnu = dot(ev, r) / (e * rn)
    nu = math.acos(max(-1.0, min(1.0, cnu)))
    if dot(r, v) < 0.0:
        nu = -nu
    p = hn * hn / mu
    q = p / (1.0 + e)
    a = q / (1.0 - e)
    E = 2.0 * math.atan2(math.sqrt(1.0 - e) * math.sin(nu / 2.0),
                         math.sqrt(1.0 + e) * math.cos(nu / 2.0))
    M = E - e * math.sin(E)
    dt = M / (K / a ** 1.5)
    return q, e, inc, node, argp, dt
