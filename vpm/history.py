"""History independence of argument objects.

epoch_history(mon, clause, jde, fns): an Epoch object that held another date,
and was passed to the same functions then, is re-set in place to `jde`; every
function must now return exactly what it returns for a fresh Epoch(jde), and
must leave the object at `jde`.  The case is self-contained, so its witness
replays from a fresh process."""


def norm(x, depth=0):
    if hasattr(x, "_deg"):
        return ("Angle", x._deg)
    if hasattr(x, "_jde"):
        return ("Epoch", x._jde)
    if isinstance(x, (list, tuple)) and depth < 6:
        return tuple(norm(v, depth + 1) for v in x)
    if isinstance(x, dict) and depth < 6:
        return tuple(sorted((repr(k), norm(v, depth + 1))
                            for k, v in x.items()))
    if isinstance(x, float) and x != x:
        return "nan"
    return x


def call(f, e):
    try:
        return ("ok", norm(f(e)))
    except Exception as ex:
        return ("raised", type(ex).__name__)


def epoch_history(mon, clause, jde, fns, before=None):
    from pymeeus.Epoch import Epoch
    if before is None:
        before = jde + 2345.678
    mon.evals += 1
    # reference answers first, from fresh objects and before the re-used
    # object exists: a memo keyed on the caller's object would otherwise hand
    # the stale answer to an equal fresh object as well
    first = [call(f, Epoch(jde)) for _name, f in fns]
    e = Epoch(before)
    for _name, f in fns:
        call(f, e)
    e.set(jde)
    for (name, f), want0 in zip(fns, first):
        got = call(f, e)
        want = call(f, Epoch(jde))
        mon.hit("history:" + ("answered" if got[0] == "ok" else
                             "refused:" + name))
        mon.check(clause, got == want0 and want == want0,
                  lambda: {"function": name, "jde": jde,
                           "object_previously_held": before,
                           "fresh_object_before": repr(want0)[:300],
                           "reused_object": repr(got)[:300],
                           "fresh_object_after": repr(want)[:300]})
    mon.check(clause, e.jde() == Epoch(jde).jde(),
              lambda: {"jde": jde, "object_after_calls": e.jde()})


PLANETS = ("Mercury", "Venus", "Mars", "Jupiter", "Saturn", "Uranus",
           "Neptune")


def _ang(x):
    from pymeeus.Angle import Angle
    return Angle(x)


def _cls(name):
    import importlib
    return getattr(importlib.import_module("pymeeus." + name), name)


def funcs(pid, rng):
    """(name, function of one Epoch) pairs in the scope of property `pid`;
    a random handful per case where the scope is large."""
    from pymeeus import Coordinates as C
    out = []
    if pid == "C07":
        for p in rng.sample(PLANETS + ("Earth",), 3):
            c = _cls(p)
            out.append((p + ".geometric_heliocentric_position",
                        c.geometric_heliocentric_position))
            out.append((p + ".apparent_heliocentric_position",
                        c.apparent_heliocentric_position))
    elif pid == "C08":
        Sun, Earth = _cls("Sun"), _cls("Earth")
        out = [("nutation_longitude", C.nutation_longitude),
               ("nutation_obliquity", C.nutation_obliquity),
               ("mean_obliquity", C.mean_obliquity),
               ("true_obliquity", C.true_obliquity),
               ("Sun.apparent_geocentric_position",
                Sun.apparent_geocentric_position),
               ("Sun.geometric_geocentric_position",
                Sun.geometric_geocentric_position),
               ("Earth.apparent_heliocentric_position",
                Earth.apparent_heliocentric_position),
               ("Sun.rectangular_coordinates_mean_equinox",
                Sun.rectangular_coordinates_mean_equinox),
               ("Sun.rectangular_coordinates_j2000",
                Sun.rectangular_coordinates_j2000),
               ("Sun.true_longitude_coarse", Sun.true_longitude_coarse),
               ("Sun.apparent_longitude_coarse",
                Sun.apparent_longitude_coarse)]
    elif pid == "C09":
        for p in rng.sample(PLANETS, 2):
            out.append((p + ".geocentric_position",
                        _cls(p).geocentric_position))
        out.append(("Pluto.geocentric_position",
                    _cls("Pluto").geocentric_position))
        out.append(("Pluto.geometric_heliocentric_position",
                    _cls("Pluto").geometric_heliocentric_position))
    elif pid == "C13":
        names = {"Mercury": ("inferior_conjunction", "superior_conjunction",
                             "western_elongation", "eastern_elongation",
                             "station_longitude_1", "station_longitude_2",
                             "perihelion_aphelion"),
                 "Venus": ("inferior_conjunction", "superior_conjunction",
                           "western_elongation", "eastern_elongation",
                           "station_longitude_1", "station_longitude_2",
                           "perihelion_aphelion", "passage_nodes"),
                 "Mars": ("conjunction", "opposition", "station_longitude_1",
                          "station_longitude_2", "perihelion_aphelion",
                          "passage_nodes"),
                 "Jupiter": ("conjunction", "opposition",
                             "station_longitude_1", "station_longitude_2",
                             "perihelion_aphelion", "passage_nodes"),
                 "Saturn": ("conjunction", "opposition",
                            "station_longitude_1", "station_longitude_2",
                            "perihelion_aphelion", "passage_nodes"),
                 "Uranus": ("conjunction", "opposition",
                            "perihelion_aphelion"),
                 "Neptune": ("conjunction", "opposition")}
        for p in rng.sample(sorted(names), 3):
            c = _cls(p)
            for n in rng.sample(names[p], 2):
                if hasattr(c, n):
                    out.append((p + "." + n, getattr(c, n)))
        E = _cls("Earth")
        out.append(("Earth.perihelion_aphelion", E.perihelion_aphelion))
    elif pid == "C14":
        Sun = _cls("Sun")
        out = [("Sun.equation_of_time", Sun.equation_of_time),
               ("Sun.ephemeris_physical_observations",
                Sun.ephemeris_physical_observations),
               ("Sun.beginning_synodic_rotation",
                lambda e: Sun.beginning_synodic_rotation(
                    int((e.jde() - 2398140.227) / 27.2752316)))]
    elif pid == "C15":
        Moon = _cls("Moon")
        for n in ("geocentric_ecliptical_pos", "apparent_ecliptical_pos",
                  "apparent_equatorial_pos", "longitude_mean_ascending_node",
                  "longitude_true_ascending_node",
                  "longitude_mean_perigee", "illuminated_fraction_disk",
                  "position_bright_limb", "moon_perigee_apogee",
                  "moon_passage_nodes", "moon_maximum_declination",
                  "moon_librations", "moon_position_angle_axis"):
            if hasattr(Moon, n):
                out.append(("Moon." + n, getattr(Moon, n)))
        out.append(("Moon.moon_phase(new)",
                    lambda e: Moon.moon_phase(e, "new")))
        out = rng.sample(out, 6)
    elif pid == "C16":
        out = [("Epoch.dow", lambda e: e.dow()),
               ("Epoch.dow(as_string)", lambda e: e.dow(as_string=True)),
               ("Epoch.mean_sidereal_time", lambda e: e.mean_sidereal_time()),
               ("Epoch.apparent_sidereal_time",
                lambda e: e.apparent_sidereal_time(23.44, 0.004)),
               ("Epoch.get_date", lambda e: e.get_date()),
               ("Epoch.get_full_date", lambda e: e.get_full_date()),
               ("Epoch.doy", lambda e: e.doy()),
               ("Epoch.year", lambda e: e.year()),
               ("Epoch.mjd", lambda e: e.mjd()),
               ("Epoch.jde", lambda e: e.jde()),
               ("Epoch.julian", lambda e: e.julian()),
               ("Epoch.leap", lambda e: e.leap()),
               ("Epoch.rise_set", lambda e: e.rise_set(_ang(40.0), _ang(-3.0))),
               ("str", lambda e: str(e))]
    return out


CLAUSE = "epoch-object-history-independent"
RANGE = {"C07": (-2000, 4000), "C08": (-2000, 4000), "C09": (1000, 3000),
         "C13": (-1000, 3000), "C14": (1000, 3000), "C15": (-1000, 3000),
         "C16": (-4000, 5000)}


def case(mon, pid, jde, sv):
    import random
    rng = random.Random(sv)
    epoch_history(mon, CLAUSE, jde, funcs(pid, rng),
                  before=jde + rng.choice((2345.678, -40000.25, 0.5, 366.0)))
    mon.cls("reused-epoch-object", ("hist", pid, jde, sv), [pid, jde, sv])


def run_cases(mon, pid, spec, n=None):
    """A few history cases at the start of every shard of property `pid`."""
    import random
    import zlib
    tag = zlib.crc32(repr(sorted((k, repr(v)) for k, v in spec.items()))
                     .encode())
    rng = random.Random(tag)
    lo, hi = RANGE[pid]
    for _ in range(n if n is not None else spec.get("n_hist", 8)):
        jde = 1721045.0 + 365.25 * rng.uniform(lo, hi)
        sv = rng.randrange(1 << 30)
        mon.begin("history", [pid, jde, sv])
        case(mon, pid, jde, sv)
