"""Entry point behind ./check: shard a property's workload over worker
processes, merge what the monitors recorded, decide the three-valued verdict,
write evidence and replay files."""
import argparse
import hashlib
import importlib
import json
import os
import shutil
import subprocess
import sys
import tempfile
import time
from array import array
from concurrent.futures import ThreadPoolExecutor

from vpm import env, findings
from vpm.mon import Monitor

MAX_VIOLATION_LINES = 20


def _run_shard(prop, spec, workdir, idx):
    sp = os.path.join(workdir, "spec%03d.json" % idx)
    op = os.path.join(workdir, "out%03d.json" % idx)
    with open(sp, "w") as f:
        json.dump(spec, f)
    envv = dict(os.environ, PYTHONHASHSEED="0", PYTHONDONTWRITEBYTECODE="1",
                PYTHONPATH=env.VERIF)
    timeout = spec.get("timeout", 3600)
    t0 = time.time()
    try:
        p = subprocess.run([env.PY, "-m", "vpm.worker", prop, sp, op],
                           cwd=env.VERIF, env=envv, timeout=timeout,
                           capture_output=True, text=True)
    except subprocess.TimeoutExpired:
        return {"shard": spec.get("name"), "status": "timeout",
                "wall_s": time.time() - t0}
    if p.returncode != 0 or not os.path.exists(op):
        return {"shard": spec.get("name"), "status": "died",
                "rc": p.returncode, "stderr": p.stderr[-2000:],
                "wall_s": time.time() - t0}
    with open(op) as f:
        r = json.load(f)
    r["_bin"] = op + ".bin"
    return r


def merge(results):
    m = {"clauses": {}, "devs": [], "devcount": {}, "classes": {},
         "samples": {}, "evals": 0, "contracts": {}, "stats": {},
         "internal": [], "refusals": {}, "reach_f": {}, "reach_p": {},
         "bad_shards": []}
    digests = set()
    for r in results:
        if r.get("status") != "done":
            m["bad_shards"].append({k: r.get(k) for k in
                                    ("shard", "status", "rc", "stderr")})
            if r.get("status") in ("timeout", "died"):
                continue
        for k, v in r.get("clauses", {}).items():
            c = m["clauses"].setdefault(k, [0, 0])
            c[0] += v[0]
            c[1] += v[1]
        m["devs"].extend(r.get("devs", []))
        for k, v in r.get("devcount", {}).items():
            m["devcount"][k] = m["devcount"].get(k, 0) + v
        for k, v in r.get("classes", {}).items():
            m["classes"][k] = m["classes"].get(k, 0) + v
        for k, v in r.get("samples", {}).items():
            s = m["samples"].setdefault(k, [])
            if len(s) < 2:
                s.extend(v[:2 - len(s)])
        m["evals"] += r.get("evals", 0)
        for k, v in r.get("contracts", {}).items():
            m["contracts"][k] = m["contracts"].get(k, 0) + v
        for k, v in r.get("refusals", {}).items():
            m["refusals"][k] = m["refusals"].get(k, 0) + v
        for k, v in r.get("stats", {}).items():
            if k not in m["stats"] or v[0] > m["stats"][k][0]:
                m["stats"][k] = v
        m["internal"].extend(r.get("internal", []))
        rr = r.get("reach") or {}
        for k, v in rr.get("functions", {}).items():
            cur = m["reach_f"].setdefault(k, [set(), v[1]])
            cur[0].update(v[0])
        for k, v in rr.get("points", {}).items():
            cur = m["reach_p"].get(k)
            if cur == "hit":
                continue
            if v == "hit" or cur is None or (cur == "not present"):
                m["reach_p"][k] = v
        b = r.get("_bin")
        if b and os.path.exists(b):
            a = array("Q")
            with open(b, "rb") as f:
                a.frombytes(f.read())
            digests.update(a)
    m["reach_f"] = {k: [len(v[0]), v[1]] for k, v in m["reach_f"].items()}
    m["distinct_nontrivial"] = len(digests)
    return m


def decide(prop, mod, m, known):
    """Split stored deviations into known findings and new violations."""
    known_keys = known.get(prop, {})
    new, seen_known = {}, {}
    for ck, n in m["devcount"].items():
        clause, key = ck.split("\x1f", 1)
        if key and key in known_keys:
            seen_known[key] = seen_known.get(key, 0) + n
        else:
            new[ck] = n
    return new, seen_known


def write_replays(prop, m, new, tier, seed):
    os.makedirs(os.path.join(env.VERIF, "replays"), exist_ok=True)
    head, digest = env.repo_fingerprint()
    paths = {}
    for d in m["devs"]:
        ck = "%s\x1f%s" % (d["clause"], d["key"] if d["key"] else "")
        if ck not in new or ck in paths:
            continue
        body = {"property": prop, "clause": d["clause"], "key": d["key"],
                "kind": d["kind"], "params": d["params"],
                "detail": d["detail"], "tier": tier, "seed": seed,
                "preceding": d.get("preceding", []),
                "shard": d["shard"], "repo_head": head,
                "pymeeus_sha256": digest, "count_in_run": new[ck]}
        h = hashlib.sha1(json.dumps(body, sort_keys=True).encode())
        safe = "".join(c if c.isalnum() or c in ".-_" else "_"
                       for c in d["clause"])[:60]
        p = os.path.join(env.VERIF, "replays", "%s-%s-%s.json"
                         % (prop, safe, h.hexdigest()[:10]))
        with open(p, "w") as f:
            json.dump(body, f, indent=1)
        paths[ck] = p
    return paths


def do_replay(prop, mod, path, known):
    with open(path) as f:
        body = json.load(f)
    env.ensure_deps()
    env.import_repo()
    mon = Monitor(prop, "replay")
    mon.begin(body["kind"], body["params"])
    if hasattr(mod, "replay"):
        mod.replay(mon, body["kind"], body["params"])
    else:
        mod.CASES[body["kind"]](mon, *body["params"])
    def one(kind, params):
        mon.begin(kind, params)
        if hasattr(mod, "replay"):
            mod.replay(mon, kind, params)
        else:
            mod.CASES[kind](mon, *params)
    if not mon.devs and body.get("preceding"):
        # not reproduced alone: the deviation may depend on what was executed
        # before it in the same process
        print("replay: not reproduced by the case alone; re-running it "
              "after the %d cases that preceded it" % len(body["preceding"]))
        mon = Monitor(prop, "replay")
        for kind, params in body["preceding"]:
            try:
                one(kind, params)
            except Exception as ex:
                print("replay: preceding case raised %r" % (ex,))
        one(body["kind"], body["params"])
    m = merge([dict(mon.to_dict(), status="done")])
    new, seen_known = decide(prop, mod, m, known)
    for d in mon.devs:
        print("deviation clause=%s key=%s detail=%s"
              % (d["clause"], d["key"], json.dumps(d["detail"])[:600]))
    for k, n in seen_known.items():
        print("KNOWN-FINDING: property=%s key=%s count=%d %s"
              % (prop, k, n, known[prop][k]))
    if new:
        print("VIOLATION property=%s replay=%s" % (prop, path))
        return 1
    print("replay: no new deviation (clauses checked: %s)"
          % json.dumps(m["clauses"]))
    return 0


def main(argv=None):
    ap = argparse.ArgumentParser()
    ap.add_argument("prop")
    ap.add_argument("--tier", default=os.environ.get("VERIF_TIER", "quick"),
                    choices=["quick", "thorough"])
    ap.add_argument("--replay")
    ap.add_argument("--jobs", type=int,
                    default=int(os.environ.get("VERIF_JOBS", "16")))
    ap.add_argument("--only", help="run only shards whose name contains this")
    ap.add_argument("--noevidence", action="store_true",
                    help="do not rewrite evidence/ or replays/ (self-test)")
    args = ap.parse_args(argv)
    prop = args.prop.upper()
    seed = int(os.environ.get("VERIF_SEED", "0"))
    tier = args.tier
    t0 = time.time()
    env.ensure_deps()
    env.import_repo()
    mod = importlib.import_module("vpm.props." + prop.lower())
    known, _fixed = findings.load()
    if args.replay:
        return do_replay(prop, mod, args.replay, known)

    specs = mod.shards(tier, seed)
    if args.only:
        specs = [s for s in specs if args.only in s.get("name", "")]
    for s in specs:
        s.setdefault("tier", tier)
        s.setdefault("seed", seed)
    os.makedirs(env.WORK, exist_ok=True)
    workdir = tempfile.mkdtemp(prefix="%s-" % prop, dir=env.WORK)
    try:
        with ThreadPoolExecutor(max_workers=args.jobs) as ex:
            futs = [ex.submit(_run_shard, prop, s, workdir, i)
                    for i, s in enumerate(specs)]
            results = [f.result() for f in futs]
        m = merge(results)
    finally:
        shutil.rmtree(workdir, ignore_errors=True)

    new, seen_known = decide(prop, mod, m, known)
    if args.noevidence:
        paths = {ck: "(not written)" for ck in new}
    else:
        paths = write_replays(prop, m, new, tier, seed) if new else {}

    # ---- inconclusive conditions -----------------------------------------
    inconclusive = []
    for b in m["bad_shards"]:
        inconclusive.append("shard %s %s %s" % (b.get("shard"),
                            b.get("status"), (b.get("stderr") or "")[-300:]))
    for e in m["internal"]:
        inconclusive.append("monitor error at %s: %s"
                            % (e["where"][:300], e["error"]))
    for name in getattr(mod, "REQUIRED_POINTS", {}).get(tier, []) \
            if isinstance(getattr(mod, "REQUIRED_POINTS", None), dict) \
            else getattr(mod, "REQUIRED_POINTS", []):
        if m["reach_p"].get(name) == "missed" and not args.only:
            inconclusive.append("reach point never executed: " + name)
    for name in getattr(mod, "REQUIRED_CLAUSES", []):
        if m["clauses"].get(name, [0, 0])[0] == 0 and not args.only:
            inconclusive.append("clause never evaluated: " + name)
    for name in getattr(mod, "REQUIRED_CONTRACTS", []):
        if m["contracts"].get(name, 0) == 0 and not args.only:
            inconclusive.append("contract never evaluated: " + name)
    if m["evals"] == 0:
        inconclusive.append("no monitored execution at all")

    # ---- output ---------------------------------------------------------------
    for key, text in sorted(known.get(prop, {}).items()):
        n = seen_known.get(key, 0)
        print("KNOWN-FINDING: property=%s key=%s observed=%d %s"
              % (prop, key, n, text))
    nlines = 0
    for ck, n in sorted(new.items()):
        if nlines >= MAX_VIOLATION_LINES:
            break
        p = paths.get(ck)
        if p is None:
            continue
        print("VIOLATION property=%s replay=%s" % (prop, p))
        d = next(x for x in m["devs"]
                 if "%s\x1f%s" % (x["clause"], x["key"] or "") == ck)
        print("  clause=%s key=%s count=%d detail=%s"
              % (d["clause"], d["key"], n, json.dumps(d["detail"])[:500]))
        nlines += 1
    verdict = "violated" if new else ("inconclusive" if inconclusive
                                      else "held")
    for r in inconclusive[:20]:
        print("INCONCLUSIVE property=%s reason=%s" % (prop, r))

    # ---- evidence ---------------------------------------------------------------
    wall = time.time() - t0
    head, digest = env.repo_fingerprint()
    samples = []
    for k, v in sorted(m["samples"].items()):
        for s in v[:2]:
            samples.append({"class": k, "case": s})
    samples = samples[:60]
    clause_table = {}
    for k, v in sorted(m["clauses"].items()):
        kn = sum(n for ck, n in m["devcount"].items()
                 if ck.split("\x1f", 1)[0] == k and ck not in new)
        nw = sum(n for ck, n in new.items() if ck.split("\x1f", 1)[0] == k)
        clause_table[k] = {"checked": v[0], "violated_new": nw, "known": kn}
    ev = {
        "property_id": prop, "tier": tier, "seed": seed,
        "level": "exploration",
        "coverage": {
            "evaluations": int(m["evals"]),
            "distinct_nontrivial": int(m["distinct_nontrivial"]),
            "rule": getattr(mod, "RULE", ""),
            "samples": samples or [{"note": "no sample recorded"}],
            "exhaustive": bool(getattr(mod, "EXHAUSTIVE", {}).get(tier,
                                                                    False)),
            "clauses": clause_table,
            "input_classes": dict(sorted(m["classes"].items())),
            "monitor_evaluations": dict(sorted(m["contracts"].items())),
            "worst_observed": {k: {"value": v[0], "case": v[1]}
                               for k, v in sorted(m["stats"].items())},
            "documented_refusals": m["refusals"],
            "reach_functions_lines_hit_total": m["reach_f"],
            "reach_points": m["reach_p"],
            "known_findings_observed": seen_known,
            "shards": len(specs),
            "verdict": verdict,
            "inconclusive_reasons": inconclusive[:20],
            "repo_head": head, "pymeeus_sha256": digest,
        },
        "assumptions": getattr(mod, "ASSUMPTIONS", []),
        "wall_s": round(wall, 2),
        "violations": int(sum(new.values())),
    }
    if not args.only and not args.noevidence:
        os.makedirs(os.path.join(env.VERIF, "evidence"), exist_ok=True)
        with open(os.path.join(env.VERIF, "evidence", prop + ".json"),
                  "w") as f:
            json.dump(ev, f, indent=1, sort_keys=True)
    tot = sum(v[0] for v in m["clauses"].values())
    print("%s tier=%s seed=%d verdict=%s executions=%d oracle_checks=%d "
          "distinct_nontrivial=%d known=%d new=%d wall=%.1fs"
          % (prop, tier, seed, verdict, m["evals"], tot,
             m["distinct_nontrivial"], sum(seen_known.values()),
             sum(new.values()), wall))
    return {"held": 0, "violated": 1, "inconclusive": 2}[verdict]


if __name__ == "__main__":
    sys.exit(main())
