#!/venv/bin/python
"""Mutation self-test of the monitors.

For each mutant in selftest/mutants.py: copy /repo to a scratch directory
outside /repo and /verif, apply one small source change, confirm the
repository's own tests still pass on it (so the change is invisible to the
suite), run the relevant check with VERIF_REPO=<scratch> and record whether it
printed VIOLATION.  The scratch copy is removed afterwards.

usage: selftest/run_mutants.py [--only C03[,C04]] [--ids id1,id2] [--tier quick]
Results: selftest/results.json (one record per mutant).
"""
import argparse
import json
import os
import shutil
import subprocess
import sys
import tempfile
import time

HERE = os.path.dirname(os.path.abspath(__file__))
VERIF = os.path.dirname(HERE)
sys.path.insert(0, HERE)
from mutants import MUTANTS  # noqa


def sh(cmd, **kw):
    return subprocess.run(cmd, capture_output=True, text=True, **kw)


def suite_passes(scratch):
    env = dict(os.environ, PYTHONPATH=scratch, PYTHONDONTWRITEBYTECODE="1")
    p = sh(["/venv/bin/python", "-m", "pytest", "-q", "-x",
            "-p", "no:cacheprovider", "--timeout=900",
            "--deselect",
            "tests/test_jupiterMoons.py::TestJupiterMoons::test_is_phenomena",
            "tests"], cwd=scratch, env=env)
    where = sh(["/venv/bin/python", "-c",
                "import pymeeus; print(pymeeus.__file__)"],
               cwd=scratch, env=env).stdout.strip()
    assert where.startswith(scratch), where
    return p.returncode == 0, p.stdout[-400:]


def main():
    ap = argparse.ArgumentParser()
    ap.add_argument("--only")
    ap.add_argument("--ids")
    ap.add_argument("--tier", default="quick")
    ap.add_argument("--skip-suite", action="store_true")
    args = ap.parse_args()
    props = set(args.only.split(",")) if args.only else None
    ids = set(args.ids.split(",")) if args.ids else None
    out_path = os.path.join(HERE, "results.json")
    results = {}
    if os.path.exists(out_path):
        with open(out_path) as f:
            results = json.load(f)
    for mu in MUTANTS:
        if props and mu["prop"] not in props:
            continue
        if ids and mu["id"] not in ids:
            continue
        scratch = tempfile.mkdtemp(prefix="vpm-mut-", dir="/tmp")
        try:
            for item in ("pymeeus", "tests"):
                shutil.copytree(os.path.join("/repo", item),
                                os.path.join(scratch, item),
                                ignore=shutil.ignore_patterns("__pycache__"))
            path = os.path.join(scratch, mu["file"])
            with open(path) as f:
                src = f.read()
            n = src.count(mu["old"])
            nth = mu.get("nth", 0)
            if n == 0 or nth >= n:
                rec = {"status": "stale", "note": "pattern found %d times"
                       % n}
                results[mu["id"]] = dict(mu, **rec)
                print("%-44s STALE (pattern x%d)" % (mu["id"], n))
                continue
            parts = src.split(mu["old"])
            src2 = mu["old"].join(parts[:nth + 1]) + mu["new"] + \
                mu["old"].join(parts[nth + 1:])
            with open(path, "w") as f:
                f.write(src2)
            if args.skip_suite:
                passes, tail = None, ""
            else:
                passes, tail = suite_passes(scratch)
            t0 = time.time()
            env = dict(os.environ, VERIF_REPO=scratch)
            env.pop("VERIF_SEED", None)
            p = sh([os.path.join(VERIF, "check"), mu["prop"], "--tier",
                    args.tier, "--noevidence"], cwd=VERIF, env=env)
            fired = "VIOLATION property=%s" % mu["prop"] in p.stdout
            clauses = sorted(set(
                l.split("clause=")[1].split(" ")[0]
                for l in p.stdout.splitlines() if "clause=" in l))
            rec = {"suite_passes": passes, "caught": fired,
                   "exit": p.returncode, "clauses": clauses[:8],
                   "check_wall_s": round(time.time() - t0, 1)}
            results[mu["id"]] = dict(mu, **rec)
            tag = "CAUGHT" if fired else "MISSED"
            if passes is False:
                tag += " (suite also fails)"
            print("%-44s %s exit=%d %s" % (mu["id"], tag, p.returncode,
                                           ",".join(clauses[:4])))
            sys.stdout.flush()
        finally:
            shutil.rmtree(scratch, ignore_errors=True)
        with open(out_path, "w") as f:
            json.dump(results, f, indent=1, sort_keys=True)


if __name__ == "__main__":
    main()
