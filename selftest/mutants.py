"""Small source mutations used to validate the monitors (selftest/run_mutants.py).
Each: id, prop, file, old, new, optional nth (which occurrence, 0-based),
optional note ("survivor by design" etc.)."""
E = "pymeeus/Epoch.py"
A = "pymeeus/Angle.py"
C = "pymeeus/Coordinates.py"
MUTANTS = []


def M(id, prop, file, old, new, nth=0, note=None):
    d = {"id": id, "prop": prop, "file": file, "old": old, "new": new,
         "nth": nth}
    if note:
        d["note"] = note
    MUTANTS.append(d)


# ---- C01
M("c01.30.6001->30.6", "C01", E, "iint(30.6001 * (m + 1.0)) + d + b", "iint(30.6 * (m + 1.0)) + d + b")
M("c01.4716->4715", "C01", E, "iint(365.25 * (y + 4716.0))", "iint(365.25 * (y + 4715.0))")
M("c01.is_julian.day<=5", "C01", E, "month == 10 and day < 5.0", "month == 10 and day <= 5.0")
M("c01.get_date.z<=2299161", "C01", E, "if z < 2299161:", "if z <= 2299161:")
M("c01.is_leap.neg", "C01", E, "return (abs(year) % 4) == 0", "return (year % 4) == 0 if year > 0 else (abs(year) % 4) == 1")
M("c01.is_leap.>1582", "C01", E, "if year >= 1582:\n                year = iint(year)", "if year > 1582:\n                year = iint(year)")
M("c01.limit_day", "C01", E, "if day >= limit_day + 1:", "if day > limit_day + 1:")
M("c01.36524.25->36524.2", "C01", E, "alpha = iint((z - 1867216.25) / 36524.25)", "alpha = iint((z - 1867216.25) / 36524.2)")
M("c01.month-name-case", "C01", E, "month = month.strip().capitalize()", "month = month.strip()")
# ---- C02
M("c02.int->round.hours", "C02", E, "h = int(r * 24.0)", "h = int(round(r * 24.0))")
M("c02.seconds-formula", "C02", E, "s = 60.0 * (r * 60.0 - mi)", "s = 60.0 * (r * 60.0) - mi")
M("c02.drop-microsecond", "C02", E, "d.second + d.microsecond / 1e6", "d.second + 0 * d.microsecond / 1e6")
M("c02.sub->add", "C02", E, "return Epoch(self._jde - b)", "return Epoch(self._jde + b)")
M("c02.lt->le", "C02", E, "return self._jde < b._jde", "return self._jde <= b._jde")
M("c02.hours-in-tuple-path", "C02", E, "                year, month, day, hours, minutes, sec = \\\n                    self._check_values(*args[0])", "                year, month, day, hours, minutes, sec = \\\n                    self._check_values(*args[0])\n                hours = hours * 2.0 if hours >= 12 else hours")
M("c02.copy-drops-fraction", "C02", E, "                self._jde = args[0]._jde\n", "                self._jde = iint(args[0]._jde) + 0.5 if args[0]._jde % 1 > 0.9999 else args[0]._jde\n")
M("c02.radd-off", "C02", E, "return self.__add__(b)  # It is the same as by the left", "return self.__add__(b + 1e-7)")
M("c02.isub-uses-add", "C02", E, "            self = self - b\n", "            self = self + b\n")
M("c02.minutes-60", "C02", E, "mi = int(r * 60.0)", "mi = int(round(r * 60.0))")
M("c02.hash-const-broken", "C02", E, "return float(self).__hash__()", "return id(self)")
# ---- C10
M("c10.table-key-shift", "C10", E, "    1981.5: 10,", "    1982.0: 10,")
M("c10.table-value", "C10", E, "    1999.0: 22,", "    1999.0: 23,")
M("c10.month<6", "C10", E, "lyear = (year + 0.25) if month <= 6 else", "lyear = (year + 0.25) if month < 6 else")
M("c10.32.184->32.148", "C10", E, "deltasec += 32.184  # Difference between TT and TAI\n                deltasec += 10.0  # Difference between UTC and TAI in 1972\n                deltasec += Epoch.leap_seconds(year, month)", "deltasec += 32.148  # Difference between TT and TAI\n                deltasec += 10.0  # Difference between UTC and TAI in 1972\n                deltasec += Epoch.leap_seconds(year, month)")
M("c10.year>1972", "C10", E, "            if year >= 1972:\n                deltasec += 32.184  # Difference between TT and TAI\n                deltasec += 10.0  # Difference between UTC and TAI in 1972\n                deltasec += Epoch.leap_seconds(year, month)\n        else:  # Correction is NOT automatic\n            if leap_seconds != 0.0:  # We apply provided leap seconds\n                if year >= 1972:\n                    deltasec += 32.184  # Difference between TT and TAI\n                    deltasec += 10.0  # Difference between UTC-TAI in 1972\n                    deltasec += leap_seconds\n        return jde", "            if year > 1972:\n                deltasec += 32.184  # Difference between TT and TAI\n                deltasec += 10.0  # Difference between UTC and TAI in 1972\n                deltasec += Epoch.leap_seconds(year, month)\n        else:  # Correction is NOT automatic\n            if leap_seconds != 0.0:  # We apply provided leap seconds\n                if year >= 1972:\n                    deltasec += 32.184  # Difference between TT and TAI\n                    deltasec += 10.0  # Difference between UTC-TAI in 1972\n                    deltasec += leap_seconds\n        return jde")
M("c10.doy<=1", "C10", E, "if doy < 1.0:\n                year -= 1", "if doy <= 1.0:\n                year -= 1")
M("c10.deltat-const", "C10", E, "dt = 63.86 + t * (", "dt = 68.36 + t * (")
M("c10.deltat-joint", "C10", E, "dt = 62.92 + t * (0.32217 + 0.005589 * t)", "dt = 64.92 + t * (0.32217 + 0.005589 * t)")
M("c10.override-readback", "C10", E, "                    deltasec += 10.0  # Difference between UTC-TAI in 1972\n                    deltasec += leap_seconds\n        # Apply", "                    deltasec += 10.0  # Difference between UTC-TAI in 1972\n                    deltasec += leap_seconds + (1 if leap_seconds > 50 else 0)\n        # Apply")
# ---- C16
M("c16.dow+1", "C16", E, "jd = iint(self._jde - 0.5) + 2.0", "jd = iint(self._jde - 0.5) + 1.0")
M("c16.dow.no-half", "C16", E, "jd = iint(self._jde - 0.5) + 2.0", "jd = iint(self._jde) + 2.0")
M("c16.275->257", "C16", E, "            doy = (iint((275.0 * mm) / 9.0)", "            doy = (iint((257.0 * mm) / 9.0)")
M("c16.k-swapped", "C16", E, "            k = 1 if leap else 2\n", "            k = 2 if leap else 1\n")
M("c16.doy-=1-removed", "C16", E, "        doy -= 1\n        days_of_year = 365.0", "        doy -= 1 if not (m == 12 and d >= 31 and self.leap()) else 0\n        days_of_year = 365.0")
M("c16.gmst-const", "C16", E, "8640184.812866", "8640184.182866")
M("c16.gmst-rate", "C16", E, "deltajd *= 1.00273790935", "deltajd *= 1.0027379935")
M("c16.eqeq/1.5", "C16", E, "cos(epsilon)) / 15.0) / DAY2SEC", "cos(epsilon)) / 1.5) / DAY2SEC")
M("c16.doy2date.098", "C16", E, "m = iint((9.0 * (k + doy)) / 275.0 + 0.98)", "m = iint((9.0 * (k + doy)) / 275.0 + 0.89)")
# ---- C19
M("c19.easter+14", "C19", E, "h = (19 * a + b - d - g + 15) % 30", "h = (19 * a + b - d - g + 14) % 30")
M("c19.easter/415", "C19", E, "m = iint((a + 11 * h + 22 * ll) / 451.0)", "m = iint((a + 11 * h + 22 * ll) / 415.0)")
M("c19.easter.julian+43", "C19", E, "e = (2 * a + 4 * b - d + 34) % 7", "e = (2 * a + 4 * b - d + 43) % 7")
M("c19.pesach.a", "C19", E, "a = (12 * (year + 1)) % 19", "a = (12 * year + 1) % 19")
M("c19.pesach.r", "C19", E, "r > 0.632870370", "r > 0.362870370")
M("c19.m2g.29.5", "C19", E, "n = d + iint(29.5001 * (m - 1) + 0.99)", "n = d + iint(29.5 * (m - 1) + 0.99)", note="possible survivor: 29.5(m-1)+0.99 gives the same integers")
M("c19.m2g.404->440", "C19", E, "w = 404 * q + 354 * r + 208 + a", "w = 440 * q + 354 * r + 208 + a")
M("c19.m2g.a", "C19", E, "a = iint((11.0 * r + 3.0) / 30.0)", "a = iint((11.0 * r + 14.0) / 30.0)")
M("c19.g2m.10631", "C19", E, "q = iint(dp / 10631.0)", "q = iint(dp / 10613.0)")
M("c19.g2m.yearlen", "C19", E, "return 355 if (11 * (h % 30) + 3) % 30 > 18 else 354", "return 355 if (11 * (h % 30) + 3) % 30 > 10 else 354")
# ---- C05
M("c05.tan-sign", "C05", C, "lon = atan2((sin(ra) * cos(eps) + tan(dec) * sin(eps)), cos(ra))", "lon = atan2((sin(ra) * cos(eps) - tan(dec) * sin(eps)), cos(ra))")
M("c05.cos-sin-swap", "C05", C, "lat = _asin(sin(dec) * cos(eps) - cos(dec) * sin(eps) * sin(ra))", "lat = _asin(sin(dec) * sin(eps) - cos(dec) * cos(eps) * sin(ra))")
M("c05.27.4", "C05", C, "c2 = Angle(27.4)", "c2 = Angle(27.13)", nth=1)
M("c05.192.25", "C05", C, "c1 = Angle(192.25)", "c1 = Angle(192.85)")
M("c05.303", "C05", C, "lon = 303.0 + lon", "lon = 33.0 + lon")
M("c05.12.25", "C05", C, "ra = y + 12.25", "ra = y + 12.5")
M("c05.atan2->atan", "C05", C, "h = atan2(sin(azi), (cos(azi) * sin(lat) + tan(ele) * cos(lat)))", "h = atan(sin(azi) / (cos(azi) * sin(lat) + tan(ele) * cos(lat)))")
M("c05.hav-no-coscos", "C05", C, "theta = 2.0 * asin(sqrt(hav(ddelta) + cos(d1) * cos(d2) * hav(dalpha)))", "theta = 2.0 * asin(sqrt(hav(ddelta) + cos(d1) * cos(d1) * hav(dalpha)))")
M("c05.gal-no-to_positive", "C05", C, "    ra = y + 12.25\n    ra.to_positive()", "    ra = y + 12.25\n")
M("c05.circle<=", "C05", C, "if a >= sqrt(b * b + c * c):", "if a <= sqrt(b * b + c * c):")
M("c05.pa-sign", "C05", C, "p = atan2(sin(da), (cos(d2) * tan(d1) - sin(d2) * cos(da)))", "p = atan2(sin(da), (cos(d2) * tan(d1) + sin(d2) * cos(da)))")
M("c05.small-eps-error", "C05", C, "    eps = obliquity.rad()\n    ra = atan2", "    eps = obliquity.rad() * (1.0 + 1e-9)\n    ra = atan2")
M("c05.asin-clamp-too-wide", "C05", C, "return asin(max(-1.0, min(1.0, x)))", "return asin(max(-0.9999999999, min(0.9999999999, x)))")
# ---- C06
M("c06.0.30188", "C06", C, "0.30188 - 0.000344 * tt", "0.30288 - 0.000344 * tt")
M("c06.1.09468", "C06", C, "1.09468 + 0.000066 * tt", "1.09648 + 0.000066 * tt")
M("c06.2004.3109", "C06", C, "        2004.3109\n", "        2004.3019\n")
M("c06.sin-theta-sign", "C06", C, "    ) - sin(theta.rad()) * sin(start_dec.rad())", "    ) + sin(theta.rad()) * sin(start_dec.rad())")
M("c06.z->zeta", "C06", C, "final_ra = atan2(a, b) + z.rad()", "final_ra = atan2(a, b) + zeta.rad()")
M("c06.85->5", "C06", C, "if start_dec > 85.0:  # Coordinates are close to the pole", "if start_dec > 5.0:  # Coordinates are close to the pole", note="must still hold: acos branch is valid for any positive declination")
M("c06.174.876", "C06", C, "pie += 174.876384", "pie += 174.867384")
M("c06.5029", "C06", C, "5029.0966", "5029.966")
M("c06.pie-p", "C06", C, "final_lon = p.rad() + pie.rad() - atan2(a, b)", "final_lon = -p.rad() + pie.rad() - atan2(a, b)")
M("c06.pm-t", "C06", C, "start_ra += p_motion_ra * t * 100.0", "start_ra += p_motion_ra * t")
M("c06.newcomb-const", "C06", C, "zeta = t * (2304.25 + 1.396 * tt", "zeta = t * (2340.25 + 1.396 * tt")
M("c06.elements-domega", "C06", C, "domega = atan2(-sin(etar) * sin(lon0r - pir),", "domega = atan2(sin(etar) * sin(lon0r - pir),")
# ---- C07
V = "pymeeus/Venus.py"
M("c07.horner-range", "C07", C, "    for i in range(len(sum_list) - 1, 0, -1):\n        lon = (lon + sum_list[i]) * t", "    for i in range(len(sum_list) - 1, 1, -1):\n        lon = (lon + sum_list[i]) * t")
M("c07.r-1e7", "C07", C, "    r += sum_list[0]\n    r /= 1e8", "    r += sum_list[0]\n    r /= 1e7")
M("c07.B-minus-Ct", "C07", C, "s += vsop_b[i][k][0] * cos(vsop_b[i][k][1] + vsop_b[i][k][2] * t)", "s += vsop_b[i][k][0] * cos(vsop_b[i][k][1] - vsop_b[i][k][2] * t)")
M("c07.fk5-1.397", "C07", C, "lambda_p = lon - t * (1.397 + 0.00031 * t)", "lambda_p = lon - t * (13.97 + 0.00031 * t)")
M("c07.fk5-sign", "C07", C, "delta_lon = Angle(0, 0, -0.09033)", "delta_lon = Angle(0, 0, 0.09033)")
M("c07.aberration", "C07", C, "delta = -20.4898 / r", "delta = -2.04898 / r")
M("c07.venus-a", "C07", V, "[0.72332982, 0.0, 0.0, 0.0],", "[0.73779642, 0.0, 0.0, 0.0],")
M("c07.venus-Lrate", "C07", V, "[181.979801, 58519.2130302, 0.00031014, 0.000000015],", "[181.979801, 58519.7130302, 0.00031014, 0.000000015],")
M("c07.venus-Lrate-j2000", "C07", V, "[181.979801, 58517.815676, 0.00000165, -0.000000002],", "[181.979801, 58417.815676, 0.00000165, -0.000000002],")
M("c07.mercury-drop-R0-term", "C07", "pymeeus/Mercury.py", "[7834131.817, 6.19233722599, 26087.90314157420],", "[0.0, 6.19233722599, 26087.90314157420],")
M("c07.mercury-L-term-phase", "C07", "pymeeus/Mercury.py", "[7834131.817, 6.19233722599, 26087.90314157420],", "[7834131.817, 6.91233722599, 26087.90314157420],")
M("c07.element-e", "C07", V, "[0.00677192, -0.000047765, 0.0000000981, 0.00000000046],", "[0.01677192, -0.000047765, 0.0000000981, 0.00000000046],")
M("c07.to_positive-dropped", "C07", C, "    lon = Angle(lon, radians=True)\n    lon = lon.to_positive()\n    sum_list = []", "    lon = Angle(lon, radians=True)\n    sum_list = []")
# ---- C08
S = "pymeeus/Sun.py"
M("c08.lat-sign", "C08", S, "        lon = lon.to_positive() + 180.0\n        lat = -lat\n        return lon, lat, r", "        lon = lon.to_positive() + 180.0\n        return lon, lat, r")
M("c08.+18", "C08", S, "lon, lat, r = Earth.apparent_heliocentric_position(epoch, nutation)\n        lon = lon.to_positive() + 180.0", "lon, lat, r = Earth.apparent_heliocentric_position(epoch, nutation)\n        lon = lon.to_positive() + 18.0")
M("c08.j2000-rot", "C08", S, "y0 = -0.000000479966 * x + 0.917482137087 * y - 0.397776982902 * z", "y0 = -0.000000479966 * x + 0.917482137087 * y - 0.39777 * z", note="multiplies the ecliptic z of the Sun (~1e-6 AU): no observable effect; equivalent")
M("c08.j2000-rot-big", "C08", S, "y0 = -0.000000479966 * x + 0.917482137087 * y - 0.397776982902 * z", "y0 = -0.000000479966 * x + 0.9174 * y - 0.397776982902 * z")
M("c08.equinox-transposed", "C08", S, "xp = xx * x0 + yx * y0 + zx * z0", "xp = xx * x0 + xy * y0 + xz * z0")
M("c08.obliquity-27", "C08", C, "epsilon0 = Angle(23, 26, 21.448)", "epsilon0 = Angle(23, 27, 21.448)")
M("c08.obliquity-4680", "C08", C, "        -4680.93\n", "        -4608.93\n")
M("c08.nutation-13187", "C08", C, "[-13187.0, -1.6],", "[-31187.0, -1.6],")
M("c08.coarse-0.00569", "C08", S, "lambd = true_lon - 0.00569 - 0.00478 * sin(omega.rad())", "lambd = true_lon - 0.0569 - 0.00478 * sin(omega.rad())")
M("c08.b1950-matrix", "C08", S, "x = 0.999925702634 * x + 0.012189716217 * y + 0.000011134016 * z", "x = 0.999925702634 * x + 0.012819716217 * y + 0.000011134016 * z")
M("c08.mean-equinox-y", "C08", S, "y = r * (sin(ll) * cos(e) - sin(b) * sin(e))", "y = r * (sin(ll) * cos(e) + sin(b) * sin(e))", note="b ~ 1e-6 rad: 4e-7 AU effect vs 1e-9 AU tolerance")
# ---- C09
MA = "pymeeus/Mars.py"
MI = "pymeeus/Minor.py"
PL = "pymeeus/Pluto.py"
M("c09.no-lighttime", "C09", MA, "        epoch -= tau\n", "        epoch -= 0.0 * tau\n", note="survivor by design: Mars moves < 0.012 deg in one light-time, inside the property's 0.02 deg allowance for aberration+nutation")
M("c09.lighttime-const", "C09", MA, "tau = 0.0057755183 * delta", "tau = 0.057755183 * delta")
M("c09.earth-after-shift", "C09", MA, "        # Compute again Mars coordinates with this correction\n", "        l0, b0, r0 = Earth.geometric_heliocentric_position(epoch, tofk5=False)\n        l0r = l0.rad()\n        b0r = b0.rad()\n        # Compute again Mars coordinates with this correction\n")
M("c09.atan2-swapped", "C09", MA, "lamb = atan2(y, x)", "lamb = atan2(x, y)")
M("c09.minor-0.98->0.89", "C09", MI, "        if e < 0.98:\n            # Elliptic case\n            # With the mean anomaly, use Kepler's equation to find E and v\n            ee, v = kepler_equation(e, m)\n            ee = Angle(ee).to_positive()\n            # Get r\n            er = ee.rad()\n            rr = a * (1.0 - e * cos(er))\n        elif abs(e - 1.0) < self._tol:\n            # Parabolic case\n            q = self._q\n            ww = (0.03649116245 * t_peri) / (q * sqrt(q))\n            sp = ww / 3.0\n            iterate = True\n            while iterate:\n                s = (2.0 * sp * sp * sp + ww) / (3.0 * (sp * sp + 1.0))\n                iterate = abs(s - sp) > self._tol\n                sp = s\n            v = 2.0 * atan(s)\n            v = Angle(v, radians=True)\n            rr = q * (1.0 + s * s)\n        else:\n            # We are in the near-parabolic case\n            v, rr = self._near_parabolic(t_peri)\n        # Compute the heliocentric rectangular equatorial coordinates\n        wr = w.rad()\n        vr = Angle(v).rad()\n        x = rr * am * sin(aa + wr + vr)\n        y = rr * bm * sin(bb + wr + vr)\n        z = rr * cm * sin(cc + wr + vr)\n        xi = x + xs", "        if e < 0.89:\n            # Elliptic case\n            # With the mean anomaly, use Kepler's equation to find E and v\n            ee, v = kepler_equation(e, m)\n            ee = Angle(ee).to_positive()\n            # Get r\n            er = ee.rad()\n            rr = a * (1.0 - e * cos(er))\n        elif abs(e - 1.0) < self._tol:\n            # Parabolic case\n            q = self._q\n            ww = (0.03649116245 * t_peri) / (q * sqrt(q))\n            sp = ww / 3.0\n            iterate = True\n            while iterate:\n                s = (2.0 * sp * sp * sp + ww) / (3.0 * (sp * sp + 1.0))\n                iterate = abs(s - sp) > self._tol\n                sp = s\n            v = 2.0 * atan(s)\n            v = Angle(v, radians=True)\n            rr = q * (1.0 + s * s)\n        else:\n            # We are in the near-parabolic case\n            v, rr = self._near_parabolic(t_peri)\n        # Compute the heliocentric rectangular equatorial coordinates\n        wr = w.rad()\n        vr = Angle(v).rad()\n        x = rr * am * sin(aa + wr + vr)\n        y = rr * bm * sin(bb + wr + vr)\n        z = rr * cm * sin(cc + wr + vr)\n        xi = x + xs", note="moves the switch of the second pass only: results may still agree if the series converges; refusals rise")
M("c09.parabolic-const", "C09", MI, "ww = (0.03649116245 * t_peri) / (q * sqrt(q))", "ww = (0.0365 * t_peri) / (q * sqrt(q))", nth=1)
M("c09.minor-se-ce", "C09", MI, "        se = 0.397777156\n        ce = 0.917482062", "        se = 0.917482062\n        ce = 0.397777156")
M("c09.aberration-sign", "C09", MA, "        lon = l0 + 180.0\n        lon = lon.rad()", "        lon = l0\n        lon = lon.rad()", note="survivor by design: flips a 0.0057 deg term inside the 0.02 deg allowance")
M("c09.pluto-minus-sun", "C09", PL, "        xi = x + xs\n        eta = y + ys\n        zeta = z + zs\n        # Compute Pluto's distance to Earth\n        delta = sqrt(xi * xi + eta * eta + zeta * zeta)\n        # Compute right", "        xi = x - xs\n        eta = y + ys\n        zeta = z + zs\n        # Compute Pluto's distance to Earth\n        delta = sqrt(xi * xi + eta * eta + zeta * zeta)\n        # Compute right")
M("c09.epoch-mutated", "C09", MA, "        epoch -= tau\n", "        epoch._jde -= tau\n")
M("c09.elong-venus-nutation", "C09", "pymeeus/Venus.py", "        elon = acos(cos(betar) * cos(lambr - lsr))", "        elon = acos(cos(betar) * cos(lambr - lsr + 0.001))")
# ---- C13
JU = "pymeeus/Jupiter.py"
M("c13.venus-b", "C13", V, "        b = 583.921361\n", "        b = 583.291361\n")
M("c13.venus-round->int", "C13", V, "        k = round((365.2425 * y + 1721060.0 - a) / b)\n", "        k = int((365.2425 * y + 1721060.0 - a) / b)\n")
M("c13.venus-1721600", "C13", V, "        k = round((365.2425 * y + 1721060.0 - a) / b)\n", "        k = round((365.2425 * y + 1721600.0 - a) / b)\n", nth=2)
M("c13.venus-sin-sign", "C13", V, "                + sin(m) * (2.0009 + t * (-0.0033 - t * 0.00001))", "                - sin(m) * (2.0009 + t * (-0.0033 - t * 0.00001))")
M("c13.jupiter-aphelion-k", "C13", JU, "            k = round(k + 0.5) - 0.5", "            k = round(k + 0.5) - 0.25")
M("c13.venus-range", "C13", V, "        if y < -2000.0 or y > 4000.0:\n", "        if y < -200.0 or y > 4000.0:\n", nth=3)
M("c13.venus-range-open", "C13", V, "        if y < -2000.0 or y > 4000.0:\n", "        if y < -3000.0 or y > 4000.0:\n", nth=1)
M("c13.mars-station-swap", "C13", MA, "        corr = (-37.079 + t * (-0.0009 + t * 0.00002)", "        corr = (37.079 + t * (-0.0009 + t * 0.00002)")
M("c13.venus-elong-angle", "C13", V, "        elon = (46.3245\n", "        elon = (46.5245\n")
M("c13.mars-nodes-asc", "C13", C, "    if ascending:\n        v = 360.0 - omega\n    else:\n        v = 180.0 - omega\n    # Compute the eccentric anomaly", "    if ascending:\n        v = 180.0 - omega\n    else:\n        v = 360.0 - omega\n    # Compute the eccentric anomaly")
M("c13.mercury-m1", "C13", "pymeeus/Mercury.py", "        m1 = 114.2088742\n", "        m1 = 114.2808742\n")
# ---- C14
M("c14.k90+0.01", "C14", S, "            arg = k * 90.0 - lon.to_positive()", "            arg = k * 90.0 + 0.01 - lon.to_positive()")
M("c14.season-const", "C14", S, "365242.37404", "365242.73404")
M("c14.season-loop-tol", "C14", S, "while abs(corr) > 0.0000025:", "while abs(corr) > 0.0025:")
M("c14.sunrise-0.83", "C14", E, "corr = -0.83 - 2.076 * sqrt(altitude) / 60.0", "corr = -0.38 - 2.076 * sqrt(altitude) / 60.0", note="0.45 deg shift: inside the 1 deg allowance unless combined with the base error")
M("c14.sunrise-jtran", "C14", E, "jtran = 2451545.5 + jstar", "jtran = 2451545.0 + jstar")
M("c14.sunrise-23.44", "C14", E, "sin_delta = sin(lr) * sin(radians(23.44))", "sin_delta = sin(lr) * sin(radians(24.34))", note="0.9 deg * sin(lambda): may stay inside 1 deg")
M("c14.rts-sidereal-rate", "C14", C, "theta = theta0 + 360.985647 * m1", "theta = theta0 + 360.895647 * m1")
M("c14.rts-one-iteration", "C14", C, "    for _ in range(2):\n        # Interpolate alpha", "    for _ in range(1):\n        # Interpolate alpha")
M("c14.rts-circumpolar", "C14", C, "    if abs(hh0) > 1.0:\n        return (None, None, None)", "    if abs(hh0) > 1.1:\n        return (None, None, None)")
M("c14.eot-const", "C14", S, "e = l0() - 0.0057183 - alpha()", "e = l0() - 0.57183 - alpha()")
M("c14.eot-x4", "C14", S, "        e *= 4.0\n", "        e *= 4.0\n        e = e + 1.2 if e > 16.0 else e\n")
M("c14.season-range", "C14", S, "        elif (year >= 1000) and (year <= 3000):", "        elif (year >= 1000) and (year <= 3100):")
# ---- C15
MO = "pymeeus/Moon.py"
M("c15.12.3685", "C15", MO, "k = round((year - 2000.0) * 12.3685, 0)", "k = round((year - 2000.0) * 12.3865, 0)")
M("c15.round->int", "C15", MO, "k = round((year - 2000.0) * 12.3685, 0)", "k = float(int((year - 2000.0) * 12.3685))", note="returns the previous instead of the nearest event: still a real event within 1.6 months near 2000; survivor unless the far-era drift pushes it over")
M("c15.last-0.57", "C15", MO, "            k += 0.75\n", "            k += 0.57\n")
M("c15.synodic-month", "C15", MO, "jde = (2451550.09766 + 29.530588861 * k", "jde = (2451550.09766 + 29.530858861 * k")
M("c15.-0.4072", "C15", MO, "-0.4072", "0.4072")
M("c15.distance-term", "C15", MO, "-20905355", "-29005355")
M("c15.385000", "C15", MO, "Delta = 385000.56 + (sigmar / 1000.0)", "Delta = 358000.56 + (sigmar / 1000.0)")
M("c15.6378", "C15", MO, "ppii = asin(6378.14 / Delta)", "ppii = asin(6738.14 / Delta)")
M("c15.illum-term", "C15", MO, "i = Angle(180.0 - D - 6.289 * sin(Mprimer)", "i = Angle(180.0 - D - 16.289 * sin(Mprimer)")
M("c15.node-13.4223", "C15", MO, "k = round((year - 2000.05) * 13.4223, 0)", "k = round((year - 2000.05) * 13.2423, 0)")
M("c15.decl-south-sign", "C15", MO, "jde += 2451562.5897", "jde += 2451563.5897")
# ---- C20
I = "pymeeus/Interpolation.py"
M("c20.arg-to_positive", "C20", C, "    lon = longitude.rad()\n    lat = latitude.rad()\n    eps = obliquity.rad()\n    ra = atan2(", "    lon = longitude.to_positive().rad()\n    lat = latitude.rad()\n    eps = obliquity.rad()\n    ra = atan2(")
M("c20.iadd-in-place", "C20", A, "        self = self + b\n        return self\n", "        self._deg = Angle.reduce_deg(self._deg + float(b))\n        return self\n", note="in-place += on the receiver itself is legal Python; the alias of the left operand changes. C03 asserts operands unchanged")
M("c20.epoch-mutated", "C20", "pymeeus/Jupiter.py", "        epoch -= tau\n", "        epoch._jde -= tau\n")
M("c20.table-sorted", "C20", C, "    t = (epoch.jde() - 2451545.0) / 365250.0\n    sum_list = []", "    t = (epoch.jde() - 2451545.0) / 365250.0\n    vsop_l[0].sort()\n    sum_list = []")
M("c20.order-points-alias", "C20", I, "        x = list(self._x)\n        y = list(self._y)\n", "        x = self._x\n        y = list(self._y)\n", note="writes xmax into the caller-visible list during ordering")
M("c20.guard-removed", "C20", "pymeeus/Moon.py", "        if not (isinstance(epoch, Epoch)):\n            raise TypeError(\"Invalid input type\")\n        # Get the time from J2000.0 in Julian centuries\n        t = (epoch - JDE2000) / 36525.0\n        # Mean elongation of the Moon", "        # Get the time from J2000.0 in Julian centuries\n        t = (epoch - JDE2000) / 36525.0\n        # Mean elongation of the Moon")
M("c20.global-cache", "C20", C, "def nutation_obliquity(*args, **kwargs):", "_LAST = []\n\n\ndef nutation_obliquity(*args, **kwargs):", note="adds an unused global only: no behaviour change; placeholder")
M("c20.hidden-state", "C20", "pymeeus/Sun.py", "        lon, lat, r = Earth.geometric_heliocentric_position(epoch, tofk5)\n        lon = lon.to_positive() + 180.0", "        lon, lat, r = Earth.geometric_heliocentric_position(epoch, tofk5)\n        JDE2000._jde += 1e-7\n        lon = lon.to_positive() + 180.0")
M("c20.copy-shares-tol", "C20", I, "                self._x = args[0]._x\n                self._y = args[0]._y\n", "                self._x = args[0]._x\n                self._y = args[0]._y\n                args[0]._tol = self._tol\n")
M("c20.return-none", "C20", "pymeeus/Epoch.py", "        if isinstance(year, (int, float)):\n            # Mind the difference between Julian and Gregorian calendars", "        if isinstance(year, bool):\n            return None\n        if isinstance(year, (int, float)):\n            # Mind the difference between Julian and Gregorian calendars", note="bool is not probed: survivor expected")
M("c20.nan-result", "C20", C, "    return 42.1218 * sqrt((1.0 / r) - (1.0 / (2.0 * a)))", "    return 42.1218 * sqrt((1.0 / r) - (1.0 / (2.0 * a))) if a < 39.0 else float('nan')")
M("c20.keyerror", "C20", "pymeeus/Moon.py", "        if (\n            (target != \"new\")\n            and (target != \"first\")\n            and (target != \"full\")\n            and (target != \"last\")\n        ):\n            raise ValueError(\"'target' value is invalid\")", "        {\"new\": 0, \"first\": 1, \"full\": 2, \"last\": 3}[target]")
